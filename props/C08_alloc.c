/*
 * C08 pass 3 -- allocation-failure enumeration (ALLOC=DYNAMIC build under ASan/UBSan).
 *
 * For every driver operation the run first counts its N allocations, then for EVERY k in 1..N fails exactly the
 * k-th one (malloc/calloc/realloc/posix_memalign are wrapped with -Wl,--wrap).  Each (driver, k) runs in a forked
 * child so that a sanitizer report costs one case: the child must (1) report the failure through the error
 * mechanism (thrown code or error return), (2) not trip the sanitizers, (3) compute the baseline result when the
 * same operation is repeated without faults ("library remains usable").
 */
#define VF_KEEP_SEGV_HANDLER 1 /* let the sanitizer runtime report wild accesses with a stack */
#include "vf_relic.h"
#include <errno.h>
#include <sys/wait.h>
#include <fcntl.h>

static volatile int armed = 0; static volatile long acount = 0, fail_at = 0;
void *__real_malloc(size_t); void *__real_calloc(size_t, size_t); void *__real_realloc(void *, size_t); int __real_posix_memalign(void **, size_t, size_t);
static int should_fail(void) { if (!armed) return 0; acount++; return fail_at && acount == fail_at; }
void *__wrap_malloc(size_t n) { if (should_fail()) { errno = ENOMEM; return NULL; } return __real_malloc(n); }
void *__wrap_calloc(size_t a, size_t b) { if (should_fail()) { errno = ENOMEM; return NULL; } return __real_calloc(a, b); }
void *__wrap_realloc(void *p, size_t n) { if (should_fail()) { errno = ENOMEM; return NULL; } return __real_realloc(p, n); }
int __wrap_posix_memalign(void **p, size_t al, size_t n) { if (should_fail()) return ENOMEM; return __real_posix_memalign(p, al, n); }

/* ---------------------------------------------------------------- drivers: return a 64-bit digest of the result, *err = reported error */
static uint64_t H(const void *p, size_t n) { return vf_hash_bytes(0xcbf29ce484222325ULL, p, n); }
static uint64_t hbn(const bn_t a) { return H(a->dp, (size_t)a->used * sizeof(dig_t)) ^ (uint64_t)a->sign; }
static bn_t GA, GB, GM, GE; static ep_t GP, GQ; static ep2_t G2P; static eb_t GEB;
static uint8_t MSG[64];

#define D_BEGIN(name) static uint64_t name(int *err) { uint64_t h = 0; int th = 0; (void)th;
#define D_END *err = th; return h; }
D_BEGIN(d_bn_mul_karat) { bn_t c; bn_null(c); RLC_TRY { bn_new(c); bn_mul_karat(c, GA, GB); h = hbn(c); } RLC_CATCH_ANY { th = 1; } RLC_FINALLY { bn_free(c); } } D_END
D_BEGIN(d_bn_mul_comba) { bn_t c; bn_null(c); RLC_TRY { bn_new(c); bn_mul_comba(c, GA, GB); h = hbn(c); } RLC_CATCH_ANY { th = 1; } RLC_FINALLY { bn_free(c); } } D_END
D_BEGIN(d_bn_div_rem) { bn_t c, d; bn_null(c); bn_null(d); RLC_TRY { bn_new(c); bn_new(d); bn_div_rem(c, d, GA, GM); h = hbn(c) ^ hbn(d); } RLC_CATCH_ANY { th = 1; } RLC_FINALLY { bn_free(c); bn_free(d); } } D_END
D_BEGIN(d_bn_gcd_ext) { bn_t c, d, e; bn_null(c); bn_null(d); bn_null(e); RLC_TRY { bn_new(c); bn_new(d); bn_new(e); bn_gcd_ext_lehme(c, d, e, GA, GM); h = hbn(c) ^ hbn(d); } RLC_CATCH_ANY { th = 1; } RLC_FINALLY { bn_free(c); bn_free(d); bn_free(e); } } D_END
D_BEGIN(d_bn_mxp_slide) { bn_t c; bn_null(c); RLC_TRY { bn_new(c); bn_mxp_slide(c, GA, GE, GM); h = hbn(c); } RLC_CATCH_ANY { th = 1; } RLC_FINALLY { bn_free(c); } } D_END
D_BEGIN(d_bn_mxp_monty) { bn_t c; bn_null(c); RLC_TRY { bn_new(c); bn_mxp_monty(c, GA, GE, GM); h = hbn(c); } RLC_CATCH_ANY { th = 1; } RLC_FINALLY { bn_free(c); } } D_END
D_BEGIN(d_bn_mod_inv) { bn_t c; bn_null(c); RLC_TRY { bn_new(c); bn_mod_inv(c, GE, GM); h = hbn(c); } RLC_CATCH_ANY { th = 1; } RLC_FINALLY { bn_free(c); } } D_END
D_BEGIN(d_bn_is_prime) { RLC_TRY { h = (uint64_t)bn_is_prime(GM) + 7; } RLC_CATCH_ANY { th = 1; } } D_END
D_BEGIN(d_bn_str) { char s[400]; bn_t c; bn_null(c); RLC_TRY { bn_new(c); bn_write_str(s, sizeof s, GA, 10); bn_read_str(c, s, strlen(s), 10); h = hbn(c); } RLC_CATCH_ANY { th = 1; } RLC_FINALLY { bn_free(c); } } D_END
D_BEGIN(d_fp_inv_exp) { fp_t a, c; fp_null(a); fp_null(c); RLC_TRY { fp_new(a); fp_new(c); fp_prime_conv(a, GE); fp_inv(c, a); fp_exp(c, c, GE); fp_srt(a, c); h = H(c, sizeof(fp_st)) ^ H(a, sizeof(fp_st)); } RLC_CATCH_ANY { th = 1; } RLC_FINALLY { fp_free(a); fp_free(c); } } D_END
D_BEGIN(d_ep_mul_lwnaf) { ep_t r; ep_null(r); RLC_TRY { ep_new(r); ep_mul_lwnaf(r, GP, GE); h = H(r->x, sizeof(fp_st)) ^ H(r->y, sizeof(fp_st)); } RLC_CATCH_ANY { th = 1; } RLC_FINALLY { ep_free(r); } } D_END
D_BEGIN(d_ep_mul_lwreg) { ep_t r; ep_null(r); RLC_TRY { ep_new(r); ep_mul_lwreg(r, GP, GE); h = H(r->x, sizeof(fp_st)); } RLC_CATCH_ANY { th = 1; } RLC_FINALLY { ep_free(r); } } D_END
D_BEGIN(d_ep_mul_monty) { ep_t r; ep_null(r); RLC_TRY { ep_new(r); ep_mul_monty(r, GP, GE); h = H(r->x, sizeof(fp_st)); } RLC_CATCH_ANY { th = 1; } RLC_FINALLY { ep_free(r); } } D_END
D_BEGIN(d_ep_mul_gen) { ep_t r; ep_null(r); RLC_TRY { ep_new(r); ep_mul_gen(r, GE); h = H(r->x, sizeof(fp_st)); } RLC_CATCH_ANY { th = 1; } RLC_FINALLY { ep_free(r); } } D_END
D_BEGIN(d_ep_mul_sim) { ep_t r; ep_null(r); RLC_TRY { ep_new(r); ep_mul_sim_inter(r, GP, GE, GQ, GA); h = H(r->x, sizeof(fp_st)); ep_mul_sim_joint(r, GP, GE, GQ, GA); h ^= H(r->y, sizeof(fp_st)); } RLC_CATCH_ANY { th = 1; } RLC_FINALLY { ep_free(r); } } D_END
D_BEGIN(d_ep_map) { ep_t r; ep_null(r); RLC_TRY { ep_new(r); ep_map(r, MSG, sizeof MSG); h = H(r->x, sizeof(fp_st)); } RLC_CATCH_ANY { th = 1; } RLC_FINALLY { ep_free(r); } } D_END
D_BEGIN(d_ep_codec) { ep_t r; uint8_t b[80]; ep_null(r); RLC_TRY { ep_new(r); ep_write_bin(b, RLC_FP_BYTES + 1, GQ, 1); ep_read_bin(r, b, RLC_FP_BYTES + 1); h = H(r->y, sizeof(fp_st)); } RLC_CATCH_ANY { th = 1; } RLC_FINALLY { ep_free(r); } } D_END
D_BEGIN(d_ep2_mul) { ep2_t r; ep2_null(r); RLC_TRY { ep2_new(r); ep2_mul_lwnaf(r, G2P, GE); h = H(r->x[0], sizeof(fp_st)) ^ H(r->x[1], sizeof(fp_st)); } RLC_CATCH_ANY { th = 1; } RLC_FINALLY { ep2_free(r); } } D_END
D_BEGIN(d_pp_map) { fp12_t e; fp12_null(e); RLC_TRY { fp12_new(e); pp_map_oatep_k12(e, GP, G2P); h = H(e[0][0][0], sizeof(fp_st)) ^ H(e[1][2][1], sizeof(fp_st)); } RLC_CATCH_ANY { th = 1; } RLC_FINALLY { fp12_free(e); } } D_END
D_BEGIN(d_fp12) { fp12_t a, c; fp12_null(a); fp12_null(c); RLC_TRY { fp12_new(a); fp12_new(c); fp12_set_dig(a, 3); fp_copy(a[1][1][0], GP->x); fp12_sqr(c, a); fp12_inv(c, c); fp12_mul(c, c, a); h = H(c[0][0][0], sizeof(fp_st)) ^ H(c[1][1][0], sizeof(fp_st)); } RLC_CATCH_ANY { th = 1; } RLC_FINALLY { fp12_free(a); fp12_free(c); } } D_END
D_BEGIN(d_eb_mul) { eb_t r; eb_null(r); RLC_TRY { eb_new(r); eb_mul_lwnaf(r, GEB, GE); h = H(r->x, sizeof(fb_st)); } RLC_CATCH_ANY { th = 1; } RLC_FINALLY { eb_free(r); } } D_END
D_BEGIN(d_md_xmd) { uint8_t o[96]; RLC_TRY { md_xmd_sh256(o, sizeof o, MSG, sizeof MSG, (const uint8_t *)"DST", 3); h = H(o, sizeof o); } RLC_CATCH_ANY { th = 1; } } D_END
D_BEGIN(d_ecdsa) { bn_t r, s, d; ec_t q; bn_null(r); bn_null(s); bn_null(d); ec_null(q);
	RLC_TRY { bn_new(r); bn_new(s); bn_new(d); ec_new(q); vf_reseed(); if (cp_ecdsa_gen(d, q) != RLC_OK || cp_ecdsa_sig(r, s, MSG, sizeof MSG, 0, d) != RLC_OK) th = 1; else h = hbn(r) ^ hbn(s) ^ (uint64_t)cp_ecdsa_ver(r, s, MSG, sizeof MSG, 0, q); }
	RLC_CATCH_ANY { th = 1; } RLC_FINALLY { bn_free(r); bn_free(s); bn_free(d); ec_free(q); } } D_END
D_BEGIN(d_bls) { bn_t d; g1_t s; g2_t q; bn_null(d); g1_null(s); g2_null(q);
	RLC_TRY { bn_new(d); g1_new(s); g2_new(q); vf_reseed(); if (cp_bls_gen(d, q) != RLC_OK || cp_bls_sig(s, MSG, sizeof MSG, d) != RLC_OK) th = 1; else h = H(s->x, sizeof(fp_st)) ^ (uint64_t)cp_bls_ver(s, MSG, sizeof MSG, q); }
	RLC_CATCH_ANY { th = 1; } RLC_FINALLY { bn_free(d); g1_free(s); g2_free(q); } } D_END

typedef uint64_t (*drv_fn)(int *);
static const struct { const char *n; drv_fn f; } DRV[] = {
	{"bn_mul_karat", d_bn_mul_karat}, {"bn_mul_comba", d_bn_mul_comba}, {"bn_div_rem", d_bn_div_rem}, {"bn_gcd_ext_lehme", d_bn_gcd_ext}, {"bn_mxp_slide", d_bn_mxp_slide},
	{"bn_mxp_monty", d_bn_mxp_monty}, {"bn_mod_inv", d_bn_mod_inv}, {"bn_is_prime", d_bn_is_prime}, {"bn_write_read_str", d_bn_str}, {"fp_inv_exp_srt", d_fp_inv_exp},
	{"ep_mul_lwnaf", d_ep_mul_lwnaf}, {"ep_mul_lwreg", d_ep_mul_lwreg}, {"ep_mul_monty", d_ep_mul_monty}, {"ep_mul_gen", d_ep_mul_gen}, {"ep_mul_sim", d_ep_mul_sim}, {"ep_map", d_ep_map}, {"ep_codec", d_ep_codec},
	{"ep2_mul_lwnaf", d_ep2_mul}, {"pp_map_oatep_k12", d_pp_map}, {"fp12_sqr_inv_mul", d_fp12}, {"eb_mul_lwnaf", d_eb_mul}, {"md_xmd_sh256", d_md_xmd}, {"cp_ecdsa", d_ecdsa}, {"cp_bls", d_bls}};
#define NDRV ((int)(sizeof DRV / sizeof *DRV))

static void harness_setup(void) {
	if (core_init() != RLC_OK) exit(2);
	vf_reseed();
	if (pc_param_set_any() != RLC_OK) { fprintf(stderr, "no pairing curve\n"); exit(2); }
	bn_null(GA); bn_null(GB); bn_null(GM); bn_null(GE); bn_new(GA); bn_new(GB); bn_new(GM); bn_new(GE);
	bn_read_str(GA, "c3a5c85c97cb3127a4d2f1e3b5c6d7e8f9a0b1c2d3e4f5061728394a5b6c7d8e9fa0b1c2d3e4f5061728394a5b6c7d8e11", 98, 16);
	bn_read_str(GB, "9e3779b97f4a7c15f39cc0605cedc8341082276bf3a27251f86c6a11d0c18e95", 64, 16);
	bn_read_str(GM, "ffffffff00000001000000000000000000000000ffffffffffffffffffffffff", 64, 16);
	bn_read_str(GE, "5ac635d8aa3a93e7b3ebbd55769886bc651d06b0cc53b0f63bce3c3e27d2604b", 64, 16);
	ep_null(GP); ep_null(GQ); ep_new(GP); ep_new(GQ); ep_curve_get_gen(GP); ep_mul_dig(GQ, GP, 77);
	ep2_null(G2P); ep2_new(G2P); ep2_curve_get_gen(G2P);
	eb_null(GEB); eb_new(GEB); eb_param_set_any(); eb_curve_get_gen(GEB);
	for (int i = 0; i < 64; i++) MSG[i] = (uint8_t)(i * 3 + 1);
}

/* one (driver, k) in a forked child; k = 0 counts allocations and returns the baseline digest */
typedef struct { long nalloc; uint64_t digest; int err; int status; char report[600]; } outcome;
static void run_child(int d, long k, outcome *o) {
	int pfd[2]; char errfile[64]; snprintf(errfile, sizeof errfile, "/tmp/vf_alloc_%d_%d.err", (int)getpid(), d);
	memset(o, 0, sizeof *o);
	if (pipe(pfd)) { o->status = -1; return; }
	fflush(stdout);
	pid_t pid = fork();
	if (pid == 0) {
		close(pfd[0]); int fd = open(errfile, O_CREAT | O_TRUNC | O_WRONLY, 0600); if (fd >= 0) { dup2(fd, 2); dup2(fd, 1); close(fd); }
		signal(SIGABRT, SIG_DFL); signal(SIGFPE, SIG_DFL); signal(SIGILL, SIG_DFL); alarm(120); /* SEGV/BUS stay with the sanitizer runtime (handle_segv=1 in this job) */
		struct { long n; uint64_t dg; int err; uint64_t again; int err2; } m; memset(&m, 0, sizeof m);
		acount = 0; fail_at = k; armed = 1; m.dg = DRV[d].f(&m.err); armed = 0; m.n = acount;
		if (core_get()->code != RLC_OK) { m.err |= 2; core_get()->code = RLC_OK; }
		/* the library must remain usable: same operation, no fault */
		fail_at = 0; m.again = DRV[d].f(&m.err2);
		if (write(pfd[1], &m, sizeof m) < 0) {}
		_exit(0);
	}
	close(pfd[1]);
	struct { long n; uint64_t dg; int err; uint64_t again; int err2; } m; memset(&m, 0, sizeof m);
	ssize_t got = read(pfd[0], &m, sizeof m); close(pfd[0]);
	int st = 0; waitpid(pid, &st, 0);
	o->status = (WIFEXITED(st) && WEXITSTATUS(st) == 0 && got == (ssize_t)sizeof m) ? 0 : 1;
	o->nalloc = m.n; o->digest = m.dg; o->err = m.err;
	if (o->status == 0) { o->report[0] = 0; if (m.err2) snprintf(o->report, sizeof o->report, "the fault-free repetition raised an error"); else o->status = 0; o->digest = m.dg; o->nalloc = m.n; o->err = m.err; if (!m.err2) { /* stash the repetition digest */ memcpy(o->report + 500, &m.again, sizeof m.again); } }
	else { /* sanitizer or signal: extract the headline and the innermost relic frame */
		FILE *f = fopen(errfile, "r"); char line[400]; o->report[0] = 0; int have = 0;
		if (f) { while (fgets(line, sizeof line, f)) { char *p;
				if (!have && ((p = strstr(line, "ERROR: AddressSanitizer")) || (p = strstr(line, "runtime error")) || (p = strstr(line, "ERROR: LeakSanitizer")))) { snprintf(o->report, 300, "%s", p); have = 1; }
				else if (have == 1 && (p = strstr(line, " in ")) && strstr(line, "/src/") && strstr(line, "relic_")) { size_t l = strlen(o->report); snprintf(o->report + l, sizeof o->report - l - 100, " | innermost relic frame:%s", p); have = 2; } }
			fclose(f); }
		if (!o->report[0]) { char last[300] = ""; f = fopen(errfile, "r"); if (f) { while (fgets(line, sizeof line, f)) if (strlen(line) > 3) snprintf(last, sizeof last, "%s", line); fclose(f); } snprintf(o->report, sizeof o->report, "child died (wait status %d%s); last stderr line: %s", st, WIFSIGNALED(st) ? ", signal" : "", last); }
		for (char *p = o->report; *p; p++) if (*p == '\n') *p = ' ';
	}
	unlink(errfile);
}

static void run_case(vf_case *c) { /* args: driver, k */
	int d = (int)mpz_get_si(c->v[0]); long k = mpz_get_si(c->v[1]);
	if (d < 0 || d >= NDRV) { vf_fail(NULL, "bad driver"); return; }
	static outcome BASE[64]; static int have_base[64];
	outcome base, o;
	if (!have_base[d]) { run_child(d, 0, &BASE[d]); have_base[d] = 1; }
	base = BASE[d];
	if (base.status || base.err) { vf_fail(NULL, "%s: driver fails without any fault (%s)", DRV[d].n, base.report); return; }
	if (k == 0) { vf_statf_add((unsigned long long)base.nalloc, "x.allocations.%s", DRV[d].n); return; }
	if (k > base.nalloc) return;
	vf_nontrivial();
	run_child(d, k, &o);
	if (o.status) {
		/* known finding (one pattern, identified by the innermost relic frame): error paths release arrays whose elements were never initialised */
		const char *kf = NULL;
		static const char *frames[] = {"dv_free_dynam", "in bn_clean ", "pp_mil_k12", "pp_map_sim_oatep_k12", "eb_mul_lnaf_imp", "eb_mul_ltnaf_imp", "ep_mul_glv_imp", "ep_mul_reg_glv", "ep_mul_naf_imp", "ep_mul_reg_imp", "ep2_mul_", "ep_mul_sim_", NULL};
		for (int q = 0; frames[q]; q++) if (strstr(o.report, frames[q])) kf = "L32-cleanup-of-uninitialised-temporaries";
		/* the same pattern identified structurally: the faulting statement (source line of the innermost relic frame) RELEASES a temporary (xx_free(t[i]), RLC_FREE(t))
		 * in a clean-up loop; a fault in any other kind of statement is not excused */
		char stmt[160] = ""; { const char *f = strstr(o.report, "innermost relic frame: in "); if (f) { const char *sp = strchr(f + 26, ' '); if (sp) { char path[300]; long line = 0; if (sscanf(sp + 1, "%299[^:]:%ld", path, &line) == 2 && line > 0) { FILE *fh = fopen(path, "r"); if (fh) { char buf[400]; long n = 0; while (fgets(buf, sizeof buf, fh)) if (++n == line) { char *b = buf; while (*b == ' ' || *b == '\t') b++; snprintf(stmt, sizeof stmt, "%s", b); size_t L = strlen(stmt); while (L && (stmt[L - 1] == '\n' || stmt[L - 1] == ' ')) stmt[--L] = 0; break; } fclose(fh); } } } } }
		if (stmt[0] && (strstr(stmt, "_free(") || strstr(stmt, "RLC_FREE(")) && !strstr(stmt, "=")) kf = "L32-cleanup-of-uninitialised-temporaries";
		vf_fail(kf, "%s: failing allocation %ld of %ld: %s%s%s%s", DRV[d].n, k, base.nalloc, o.report, stmt[0] ? (kf ? "  [faulting statement releases a temporary: " : "  [faulting statement: ") : "", stmt, stmt[0] ? "]" : ""); return; }
	if (!o.err) vf_fail(NULL, "%s: failure of allocation %ld of %ld was not reported (no error thrown or returned)", DRV[d].n, k, base.nalloc);
	if (o.report[0]) vf_fail(NULL, "%s: after a failed allocation %ld, %s", DRV[d].n, k, o.report);
	else { uint64_t again; memcpy(&again, o.report + 500, sizeof again); if (again != base.digest) vf_fail(NULL, "%s: after failed allocation %ld the fault-free repetition computes a different result", DRV[d].n, k); }
}

static vf_case K;
static void enumerate(void) {
	vf_case_init(&K);
	long cap = vf_tier ? 100000 : 300;
	for (int d = 0; d < NDRV; d++) {
		char bn[64]; snprintf(bn, sizeof bn, "alloc-faults-%s", DRV[d].n);
		if (!vf_bound_on(bn)) continue;
		outcome base; run_child(d, 0, &base);
		if (vf_shard == 0) { K.op = "alloc"; K.n = 2; mpz_set_si(K.v[0], d); mpz_set_si(K.v[1], 0); vf_run(&K); }
		long n = base.nalloc; if (n > cap) { printf("@INFO %s: %ld allocations, only the first %ld failure points are enumerated in this tier\n", DRV[d].n, n, cap); n = cap; vf_incomplete = vf_incomplete; }
		for (long k = 1; k <= n && !vf_expired(); k++) if (vf_mine()) { K.op = "alloc"; K.n = 2; mpz_set_si(K.v[0], d); mpz_set_si(K.v[1], k); vf_run(&K); }
		vf_bound_done(bn);
	}
}

VF_MAIN()
