/*
 * C04 / C11 / C12, other pairing families -- the parameter set the library selects for this build (B24 at 315 bits, KSS16 at 330, B48 at 575,
 * KSS18 at 638; also usable for the k = 12 builds), driven through the pairing-group layer (g1_, g2_, gt_, pc_map).
 *
 * Reference: the target field F_p^k as a quotient-ring tower whose constants are read from the library and validated irreducible (gt_generic.h).
 * With E0 = e(G1, G2) read once and checked (E0 != 1, E0^r = 1 by the reference), the group G2 of prime order r and the non-degenerate pairing give
 * an exact oracle for everything computed in the groups:  X = [k]G2  <=>  e(G1, X) = E0^k, so
 *   bil: e([a]G1, [b]G2) = E0^(ab) over the scalar alphabet squared (0, 1, 2, 3, r-1, r, r+1, -1, -5, 2^64, dense ...), identity in either slot,
 *        un-normalised inputs;
 *   sim: multi-pairings over every identity pattern of three pairs = product of the reference values;
 *   g2m / g1m: EVERY scalar-multiplication routine of the second (first) group (plain, windowed, ladder, regular, generator, digit, fixed-base tables
 *        of every method, simultaneous forms) on [k]: e(G1, routine(k)) = E0^k;
 *   g2l: the group law of the extension curve in every coordinate system and operand representation: e(G1, [i]Q op [j]Q) = E0^(i op j) for all
 *        pairs of an index alphabet (equal, opposite, identity operands included);
 *   g2f: the Frobenius endomorphism, every power 0..k+1, on affine and projective operands, in place: e(G1, frb^i([j]G2)) = E0^(j p^i);
 *   map: g1_map / g2_map over message lengths 0..1000 x 3 patterns: image valid and of order r, deterministic, one-bit neighbours separated (C13);
 *   gte: every exponentiation form of the target group against the reference power;
 *   val: validity predicates on members, identities, elements / points outside the groups (twist points found by solving the curve equation),
 *        and cofactor clearing of such points.
 * Case args: op-specific small indexes (scalars are taken from the alphabet by index so that cases stay short).
 */
#include "gt_generic.h"
#include <sys/wait.h>
#include <unistd.h>
#include <fcntl.h>
#define K_ RLC_GT_EMBED
#define G2FN(name) RLC_CAT(RLC_G2_LOWER, name)
#if FP_PRIME == 575
#define G2F(name) RLC_CAT(fp8_, name)
typedef fp8_t g2f_t;
#define G2D 8
#elif FP_PRIME == 315 || FP_PRIME == 317 || FP_PRIME == 330 || FP_PRIME == 509 || FP_PRIME == 510 || FP_PRIME == 765 || FP_PRIME == 766
#define G2F(name) RLC_CAT(fp4_, name)
typedef fp4_t g2f_t;
#define G2D 4
#elif FP_PRIME == 354 || FP_PRIME == 508 || FP_PRIME == 768 || (FP_PRIME == 638 && !defined(FP_QNRES))
#define G2F(name) RLC_CAT(fp3_, name)
typedef fp3_t g2f_t;
#define G2D 3
#else
#define G2F(name) RLC_CAT(fp2_, name)
typedef fp2_t g2f_t;
#define G2D 2
#endif

static unsigned long long transitions = 0;
static rtower *T; static relt E0r, Xr, Yr; static mpz_t R, SC[24]; static int NSC = 0; static g1_t P0; static g2_t Q0; static gt_t E0; static int ready = 0;
static int get_gt(relt *e, const gt_t g) { return gx_get(e, K_, g); }
static void harness_setup(void) {
	if (core_init() != RLC_OK) exit(2); vf_reseed(); int th, v = RLC_ERR; VF_TRY(th, v = pc_param_set_any()); if (th || v != RLC_OK) { fprintf(stderr, "no pairing parameters in this build\n"); exit(2); }
	vf_fp_sync(); T = gx_learn(K_); relt_init(&E0r); relt_init(&Xr); relt_init(&Yr); mpz_init(R); g1_null(P0); g1_new(P0); g2_null(Q0); g2_new(Q0); gt_null(E0); gt_new(E0);
	bn_t n; bn_null(n); bn_new(n); pc_get_ord(n); vf_bn_get(R, n); bn_free(n); g1_get_gen(P0); g2_get_gen(Q0);
	/* scalar alphabet */
	const char *dense[] = {"9e3779b97f4a7c15f39cc0605cedc8341082276bf3a27251f86c6a11d0c18e95", "c2b2ae3d27d4eb4f165667b19e3779f9f1bbcdc8a3c59ac3d1b54a32d192ed03c2b2ae3d27d4eb4f"};
	for (int i = 0; i < 24; i++) mpz_init(SC[i]);
	mpz_set_ui(SC[0], 0); mpz_set_ui(SC[1], 1); mpz_set_ui(SC[2], 2); mpz_set_ui(SC[3], 3); mpz_sub_ui(SC[4], R, 1); mpz_set(SC[5], R); mpz_add_ui(SC[6], R, 1); mpz_set_si(SC[7], -1); mpz_set_si(SC[8], -5);
	mpz_set_ui(SC[9], 1); mpz_mul_2exp(SC[9], SC[9], 64); mpz_set_str(SC[10], dense[0], 16); mpz_mod(SC[10], SC[10], R); mpz_set_str(SC[11], dense[1], 16); mpz_mod(SC[11], SC[11], R); mpz_fdiv_q_2exp(SC[12], R, 1);
	mpz_set_ui(SC[13], 1); mpz_mul_2exp(SC[13], SC[13], mpz_sizeinbase(R, 2) - 1); mpz_sub_ui(SC[14], R, 2); mpz_set_ui(SC[15], 5); mpz_set_ui(SC[16], 0xffffffffUL); mpz_neg(SC[17], SC[10]); NSC = 18;
	if (!T) return; VF_TRY(th, pc_map(E0, P0, Q0)); if (th) return; if (!get_gt(&E0r, E0)) return; ready = 1;
}
static void sc_bn(bn_t k, int idx) { vf_bn_set(k, SC[idx]); }
/* expected E0^e (e any integer): the reference power of the reduced exponent (E0^r = 1 is itself checked by the reference in op base) */
static void expect_pow(const char *what, const gt_t got, const mpz_t e) {
	mpz_t m; mpz_init(m); mpz_mod(m, e, R); gx_pow(T, &Xr, &E0r, m); mpz_clear(m); transitions++;
	if (!get_gt(&Yr, got)) { vf_fail(NULL, "%s: result has a non-canonical coefficient", what); return; }
	if (!relt_eq(T, &Xr, &Yr)) { char *s = mpz_get_str(NULL, 16, e); vf_fail(NULL, "%s: the value differs from E0^(%s%s) computed in the reference tower", what, strlen(s) > 24 ? "..." : "", strlen(s) > 24 ? s + strlen(s) - 24 : s); free(s); }
}
static void expect_g2(const char *what, const g2_t X, const mpz_t k) { gt_t e; gt_null(e); gt_new(e); g2_t n; g2_null(n); g2_new(n); int th; VF_TRY(th, g2_norm(n, X)); if (th) { vf_fail(NULL, "%s: g2_norm raised", what); return; } transitions++; if (!g2_is_infty(n) && !g2_on_curve(n)) { vf_fail(NULL, "%s: the result is not on the curve", what); return; } VF_TRY(th, pc_map(e, P0, n)); if (th) { vf_fail(NULL, "%s: pc_map raised on the result", what); return; } expect_pow(what, e, k); gt_free(e); g2_free(n); }
static void expect_g1(const char *what, const g1_t X, const mpz_t k) { gt_t e; gt_null(e); gt_new(e); g1_t n; g1_null(n); g1_new(n); int th; VF_TRY(th, g1_norm(n, X)); if (th) { vf_fail(NULL, "%s: g1_norm raised", what); return; } transitions++; if (!g1_is_infty(n) && !g1_on_curve(n)) { vf_fail(NULL, "%s: the result is not on the curve", what); return; } VF_TRY(th, pc_map(e, n, Q0)); if (th) { vf_fail(NULL, "%s: pc_map raised on the result", what); return; } expect_pow(what, e, k); gt_free(e); g1_free(n); }

static void do_base(vf_case *c) { (void)c;
	if (!T) { vf_fail(NULL, "the tower of degree %d could not be read from the library or is not a field", K_); return; } if (!ready) { vf_fail(NULL, "e(G1, G2) could not be computed"); return; }
	transitions += 4; if (gx_is_one(T, &E0r)) vf_fail(NULL, "e(G1, G2) is the identity: degenerate"); gx_pow(T, &Xr, &E0r, R); if (!gx_is_one(T, &Xr)) vf_fail(NULL, "e(G1, G2)^r != 1 in the reference tower");
	if (mpz_probab_prime_p(R, 40) == 0) vf_fail(NULL, "the group order is not prime"); gt_t g; gt_null(g); gt_new(g); int th; VF_TRY(th, gt_get_gen(g)); if (th || gt_cmp(g, E0) != RLC_EQ) vf_fail(NULL, "gt_get_gen is not e(G1, G2)"); if (!gt_is_valid(E0)) vf_fail(NULL, "gt_is_valid rejects e(G1, G2)");
	if (!g1_is_valid(P0) || !g2_is_valid(Q0)) vf_fail(NULL, "a generator is rejected by its validity predicate"); gt_free(g);
}
/* bil: ia, ib, representation (0 normalised, 1 un-normalised operands) */
static void do_bil(vf_case *c) {
	int ia = (int)mpz_get_si(c->v[0]), ib = (int)mpz_get_si(c->v[1]), rep = (int)mpz_get_si(c->v[2]), th; bn_t a, b; bn_null(a); bn_new(a); bn_null(b); bn_new(b); sc_bn(a, ia); sc_bn(b, ib);
	g1_t P; g2_t Q; gt_t e; g1_null(P); g1_new(P); g2_null(Q); g2_new(Q); gt_null(e); gt_new(e); mpz_t ab; mpz_init(ab);
	VF_TRY(th, g1_mul(P, P0, a)); if (th) { vf_fail(NULL, "g1_mul raised"); return; } VF_TRY(th, g2_mul(Q, Q0, b)); if (th) { vf_fail(NULL, "g2_mul raised"); return; } mpz_mul(ab, SC[ia], SC[ib]);
	if (rep) { /* P = ([a]G - G) + G and Q = ([b]G - G) + G, left in projective coordinates */ g1_t t; g2_t u; g1_null(t); g1_new(t); g2_null(u); g2_new(u); g1_sub(t, P, P0); g1_add(P, t, P0); g2_sub(u, Q, Q0); g2_add(Q, u, Q0); g1_free(t); g2_free(u); }
	VF_TRY(th, pc_map(e, P, Q)); if (th) { vf_fail(NULL, "pc_map raised for scalars %d, %d", ia, ib); return; }
	char w[96]; snprintf(w, sizeof w, "e([s%d]G1, [s%d]G2)%s", ia, ib, rep ? " on un-normalised points" : ""); expect_pow(w, e, ab);
	transitions++; if ((g1_is_infty(P) || g2_is_infty(Q)) && !gt_is_unity(e)) vf_fail(NULL, "%s: pairing with the identity is not 1", w);
	mpz_clear(ab); bn_free(a); bn_free(b); g1_free(P); g2_free(Q); gt_free(e);
}
/* sim: identity mask over three pairs, scalar rotation */
static void do_sim(vf_case *c) {
	unsigned mask = (unsigned)mpz_get_ui(c->v[0]); int rot = (int)mpz_get_si(c->v[1]), m = (int)mpz_get_si(c->v[2]), th; g1_t P[3]; g2_t Q[3]; gt_t e; gt_null(e); gt_new(e); mpz_t acc, t; mpz_inits(acc, t, NULL); bn_t k; bn_null(k); bn_new(k);
	static const int SA[] = {10, 2, 4, 11, 15, 8}, SB[] = {11, 14, 3, 10, 16, 4};
	for (int i = 0; i < 3; i++) { g1_null(P[i]); g1_new(P[i]); g2_null(Q[i]); g2_new(Q[i]); int a = SA[(i + rot) % 6], b = SB[(i + 2 * rot) % 6];
		if (mask & (1u << (2 * i))) { g1_set_infty(P[i]); mpz_set_ui(t, 0); } else { sc_bn(k, a); g1_mul_gen(P[i], k); mpz_set(t, SC[a]); }
		if (mask & (2u << (2 * i))) { g2_set_infty(Q[i]); mpz_set_ui(t, 0); } else { sc_bn(k, b); g2_mul_gen(Q[i], k); mpz_mul(t, t, SC[b]); }
		if (i < m) mpz_add(acc, acc, t);
		if (((mask >> i) ^ (unsigned)rot ^ (unsigned)i) & 1) { if (!g1_is_infty(P[i])) { g1_add(P[i], P[i], P0); g1_sub(P[i], P[i], P0); } if (!g2_is_infty(Q[i])) { g2_add(Q[i], Q[i], Q0); g2_sub(Q[i], Q[i], Q0); } } }
	VF_TRY(th, pc_map_sim(e, P, Q, (size_t)m)); if (th) { vf_fail(NULL, "pc_map_sim raised for %d pairs, identity mask %x", m, mask); return; }
	if (m == 0) { transitions++; if (!gt_is_unity(e)) vf_fail(NULL, "pc_map_sim over no pairs is not 1"); } else { char w[96]; snprintf(w, sizeof w, "pc_map_sim over %d pairs, identity mask %x", m, mask); expect_pow(w, e, acc); }
	for (int i = 0; i < 3; i++) { g1_free(P[i]); g2_free(Q[i]); } gt_free(e); mpz_clears(acc, t, NULL); bn_free(k);
}

/* alt: the Tate and Weil pairings offered for k = 12, 16, 18 (map 0 Tate, 1 Weil; ia, ib; representation). Each map has its own value B = map(G1, G2),
 * read once per process and checked by the reference (B != 1, B^r = 1); bilinearity: map([a]G1, [b]G2) = B^(ab). Multi-pairing form with an
 * identity mask over three pairs as in sim (args: map, 100 + mask, rot, m). */
#if RLC_GT_EMBED == 12 || RLC_GT_EMBED == 16 || RLC_GT_EMBED == 18
#define HAVE_ALT 1
#define PPN(name) RLC_CAT(RLC_CAT(name, _k), RLC_GT_EMBED)
static relt ALTB[2]; static int alt_ready[2] = {0, 0};
/* finding L47: at K16_P330, K18_P354 and K18_P508 the Tate and Weil pairings are not bilinear (relic's own test_pp fails in those builds) */
#define ALT_KF ((RLC_GT_EMBED == 16 || (RLC_GT_EMBED == 18 && (FP_PRIME == 354 || FP_PRIME == 508))) ? "L47-k16-tate-and-weil-pairings-not-bilinear" : NULL)
static void alt_map(int mp, gt_t e, const g1_t P, const g2_t Q) { if (mp) PPN(pp_map_weilp)(e, P, Q); else PPN(pp_map_tatep)(e, P, Q); }
static void alt_sim(int mp, gt_t e, const g1_t *P, const g2_t *Q, int m) { if (mp) PPN(pp_map_sim_weilp)(e, P, Q, m); else PPN(pp_map_sim_tatep)(e, P, Q, m); }
static int alt_base(int mp) {
	if (alt_ready[mp] == -2) { vf_fail(ALT_KF, "%s pairing of the generators does not have order r in the reference tower", mp ? "Weil" : "Tate"); return 0; }
	if (alt_ready[mp]) return alt_ready[mp] > 0; alt_ready[mp] = -1; relt_init(&ALTB[mp]); gt_t e; gt_null(e); gt_new(e); int th; VF_TRY(th, alt_map(mp, e, P0, Q0)); if (th || !get_gt(&ALTB[mp], e)) return 0;
	transitions += 2; if (gx_is_one(T, &ALTB[mp])) { vf_fail(NULL, "%s pairing of the generators is the identity: degenerate", mp ? "Weil" : "Tate"); return 0; }
	gx_pow(T, &Xr, &ALTB[mp], R); if (!gx_is_one(T, &Xr)) { vf_fail(ALT_KF, "%s pairing of the generators does not have order r in the reference tower", mp ? "Weil" : "Tate"); alt_ready[mp] = -2; return 0; }
	alt_ready[mp] = 1; gt_free(e); return 1;
}
static void expect_alt(int mp, const char *what, const gt_t got, const mpz_t e) {
	mpz_t m; mpz_init(m); mpz_mod(m, e, R); gx_pow(T, &Xr, &ALTB[mp], m); mpz_clear(m); transitions++;
	if (!get_gt(&Yr, got)) { vf_fail(NULL, "%s: result has a non-canonical coefficient", what); return; }
	if (!relt_eq(T, &Xr, &Yr)) vf_fail(ALT_KF, "%s: the value differs from the generator pairing raised to the product of the scalars (reference tower)", what);
}
static void do_alt(vf_case *c) {
	int mp = (int)mpz_get_si(c->v[0]), ia = (int)mpz_get_si(c->v[1]), ib = (int)mpz_get_si(c->v[2]), rep = (int)mpz_get_si(c->v[3]), th; const char *mn = mp ? "Weil" : "Tate";
	if (!T || !ready) { vf_fail(NULL, "reference tower not available"); return; } if (!alt_base(mp)) { if (alt_ready[mp] != -2) vf_fail(NULL, "%s pairing of the generators could not be computed", mn); return; }
	gt_t e; gt_null(e); gt_new(e); bn_t k; bn_null(k); bn_new(k); char w[120];
	if (ia >= 100) { /* multi-pairing */ unsigned mask = (unsigned)(ia - 100); int rot = ib, m = rep; g1_t P[3]; g2_t Q[3]; mpz_t acc, t; mpz_inits(acc, t, NULL); static const int SA[] = {10, 2, 4, 11, 15, 8}, SB[] = {11, 14, 3, 10, 16, 4};
		for (int i = 0; i < 3; i++) { g1_null(P[i]); g1_new(P[i]); g2_null(Q[i]); g2_new(Q[i]); int a = SA[(i + rot) % 6], b = SB[(i + 2 * rot) % 6];
			if (mask & (1u << (2 * i))) { g1_set_infty(P[i]); mpz_set_ui(t, 0); } else { sc_bn(k, a); g1_mul_gen(P[i], k); mpz_set(t, SC[a]); }
			if (mask & (2u << (2 * i))) { g2_set_infty(Q[i]); mpz_set_ui(t, 0); } else { sc_bn(k, b); g2_mul_gen(Q[i], k); mpz_mul(t, t, SC[b]); }
			if (i < m) mpz_add(acc, acc, t);
			/* every second finite point is left un-normalised: (X + G) - G in projective coordinates */
			if (((mask >> i) ^ (unsigned)rot ^ (unsigned)i) & 1) { if (!g1_is_infty(P[i])) { g1_add(P[i], P[i], P0); g1_sub(P[i], P[i], P0); } if (!g2_is_infty(Q[i])) { g2_add(Q[i], Q[i], Q0); g2_sub(Q[i], Q[i], Q0); } } }
		VF_TRY(th, alt_sim(mp, e, P, Q, m)); snprintf(w, sizeof w, "%s multi-pairing over %d pairs, identity mask %x", mn, m, mask);
		if (th) vf_fail(NULL, "%s raised", w); else if (m == 0) { transitions++; if (!gt_is_unity(e)) vf_fail(NULL, "%s is not 1", w); } else expect_alt(mp, w, e, acc);
		for (int i = 0; i < 3; i++) { g1_free(P[i]); g2_free(Q[i]); } mpz_clears(acc, t, NULL);
	} else { g1_t P; g2_t Q; g1_null(P); g1_new(P); g2_null(Q); g2_new(Q); mpz_t ab; mpz_init(ab); sc_bn(k, ia); VF_TRY(th, g1_mul(P, P0, k)); sc_bn(k, ib); VF_TRY(th, g2_mul(Q, Q0, k)); mpz_mul(ab, SC[ia], SC[ib]);
		if (rep) { g1_t t; g2_t u; g1_null(t); g1_new(t); g2_null(u); g2_new(u); g1_sub(t, P, P0); g1_add(P, t, P0); g2_sub(u, Q, Q0); g2_add(Q, u, Q0); g1_free(t); g2_free(u); }
		VF_TRY(th, alt_map(mp, e, P, Q)); snprintf(w, sizeof w, "%s pairing e([s%d]G1, [s%d]G2)%s", mn, ia, ib, rep ? " on un-normalised points" : "");
		if (th) vf_fail(NULL, "%s raised", w); else { expect_alt(mp, w, e, ab); transitions++; if ((g1_is_infty(P) || g2_is_infty(Q)) && !gt_is_unity(e)) vf_fail(NULL, "%s: pairing with the identity is not 1", w); }
		mpz_clear(ab); g1_free(P); g2_free(Q); }
	gt_free(e); bn_free(k);
}
#endif
/* g2m: routine, scalar index */
static const char *G2R[] = {"g2_mul", "g2_mul_gen", "g2_mul_sec", "g2_mul_dig", "g2_mul_pre+fix", "mul_basic", "mul_slide", "mul_monty", "mul_lwnaf", "mul_lwreg", "mul_gen", "g2_mul_sim", "mul_sim_basic", "mul_sim_trick", "mul_sim_inter", "mul_sim_joint", "g2_mul_sim_gen", "g2_mul_sim_lot", "g2_mul_sim_dig",
	"pre/fix basic", "pre/fix yaowi", "pre/fix nafwi", "pre/fix combs", "pre/fix combd", "pre/fix lwnaf", "g2_mul_any"};
#define NG2R 26
static void do_g2m(vf_case *c) {
	int rt = (int)mpz_get_si(c->v[0]), ik = (int)mpz_get_si(c->v[1]), th = 0; bn_t k, l; bn_null(k); bn_new(k); bn_null(l); bn_new(l); sc_bn(k, ik); sc_bn(l, (ik + 3) % NSC); g2_t X, Q1; g2_null(X); g2_new(X); g2_null(Q1); g2_new(Q1); mpz_t e; mpz_init_set(e, SC[ik]);
	bn_t seven; bn_null(seven); bn_new(seven); bn_set_dig(seven, 7); g2_mul_gen(Q1, seven); /* Q1 = [7]G2 */
	static g2_t TB[RLC_EPX_TABLE_MAX]; static int tbi = 0; if (!tbi) { for (int i = 0; i < RLC_EPX_TABLE_MAX; i++) { g2_null(TB[i]); g2_new(TB[i]); } tbi = 1; }
	int regular = rt == 2 || rt == 7 || rt == 9; /* ladder / regular forms reduce or refuse scalars beyond the order: only in-range scalars are judged for them */
	if ((regular || rt >= 19) && (mpz_sgn(SC[ik]) < 0 || mpz_cmp(SC[ik], R) > 0)) { vf_stat_add("x.out_of_range_scalar_not_offered", 1); return; }
	switch (rt) {
		case 0: VF_TRY(th, g2_mul(X, Q0, k)); break; case 1: VF_TRY(th, g2_mul_gen(X, k)); break; case 2: VF_TRY(th, g2_mul_sec(X, Q0, k)); break;
		case 3: { dig_t d = (dig_t)(0x9E3779B97F4A7C15ULL >> (ik % 60)); VF_TRY(th, g2_mul_dig(X, Q0, d)); mpz_import(e, 1, 1, sizeof d, 0, 0, &d); break; }
		case 4: VF_TRY(th, g2_mul_pre(TB, Q0)); if (!th) VF_TRY(th, g2_mul_fix(X, (const g2_t *)TB, k)); break;
		case 5: VF_TRY(th, G2FN(mul_basic)(X, Q0, k)); break; case 6: VF_TRY(th, G2FN(mul_slide)(X, Q0, k)); break; case 7: VF_TRY(th, G2FN(mul_monty)(X, Q0, k)); break; case 8: VF_TRY(th, G2FN(mul_lwnaf)(X, Q0, k)); break; case 9: VF_TRY(th, G2FN(mul_lwreg)(X, Q0, k)); break; case 10: VF_TRY(th, G2FN(mul_gen)(X, k)); break;
		case 11: VF_TRY(th, g2_mul_sim(X, Q0, k, Q1, l)); mpz_addmul_ui(e, SC[(ik + 3) % NSC], 7); break; case 12: VF_TRY(th, G2FN(mul_sim_basic)(X, Q0, k, Q1, l)); mpz_addmul_ui(e, SC[(ik + 3) % NSC], 7); break; case 13: VF_TRY(th, G2FN(mul_sim_trick)(X, Q0, k, Q1, l)); mpz_addmul_ui(e, SC[(ik + 3) % NSC], 7); break;
		case 14: VF_TRY(th, G2FN(mul_sim_inter)(X, Q0, k, Q1, l)); mpz_addmul_ui(e, SC[(ik + 3) % NSC], 7); break; case 15: VF_TRY(th, G2FN(mul_sim_joint)(X, Q0, k, Q1, l)); mpz_addmul_ui(e, SC[(ik + 3) % NSC], 7); break;
		case 16: VF_TRY(th, g2_mul_sim_gen(X, k, Q1, l)); mpz_addmul_ui(e, SC[(ik + 3) % NSC], 7); break;
		case 17: { g2_t ps[3]; bn_t ks[3]; mpz_set_ui(e, 0); for (int i = 0; i < 3; i++) { g2_null(ps[i]); g2_new(ps[i]); bn_null(ks[i]); bn_new(ks[i]); bn_set_dig(ks[i], (dig_t)(i + 2)); g2_mul_gen(ps[i], ks[i]); sc_bn(ks[i], (ik + i) % NSC); mpz_addmul_ui(e, SC[(ik + i) % NSC], (unsigned long)(i + 2)); } VF_TRY(th, g2_mul_sim_lot(X, ps, (const bn_t *)ks, 3)); for (int i = 0; i < 3; i++) { g2_free(ps[i]); bn_free(ks[i]); } break; }
		case 18: { g2_t ps[3]; dig_t ds[3]; bn_t t; bn_null(t); bn_new(t); mpz_set_ui(e, 0); for (int i = 0; i < 3; i++) { g2_null(ps[i]); g2_new(ps[i]); bn_set_dig(t, (dig_t)(i + 2)); g2_mul_gen(ps[i], t); ds[i] = (dig_t)(0xC2B2AE3D27D4EB4FULL >> ((ik * 3 + i * 11) % 60)); mpz_t d; mpz_init(d); mpz_import(d, 1, 1, sizeof(dig_t), 0, 0, &ds[i]); mpz_addmul_ui(e, d, (unsigned long)(i + 2)); mpz_clear(d); } VF_TRY(th, g2_mul_sim_dig(X, (const g2_t *)ps, ds, 3)); for (int i = 0; i < 3; i++) g2_free(ps[i]); bn_free(t); break; }
		case 19: VF_TRY(th, G2FN(mul_pre_basic)(TB, Q0)); if (!th) VF_TRY(th, G2FN(mul_fix_basic)(X, TB, k)); break; case 20: case 21: /* the Yao / NAF-window tables are declared for these curves but not implemented */ vf_stat_add("x.declared_but_undefined_table_methods", 1); return;
		case 22: VF_TRY(th, G2FN(mul_pre_combs)(TB, Q0)); if (!th) VF_TRY(th, G2FN(mul_fix_combs)(X, TB, k)); break; case 23: VF_TRY(th, G2FN(mul_pre_combd)(TB, Q0)); if (!th) VF_TRY(th, G2FN(mul_fix_combd)(X, TB, k)); break; case 24: VF_TRY(th, G2FN(mul_pre_lwnaf)(TB, Q0)); if (!th) VF_TRY(th, G2FN(mul_fix_lwnaf)(X, TB, k)); break;
		default: VF_TRY(th, g2_mul_any(X, Q0, k)); break; }
	char w[96]; snprintf(w, sizeof w, "%s with scalar s%d", G2R[rt], ik);
	if (th) { /* a refusal of a scalar longer than the order is the family's documented limitation (finding L35 for ep2); within range it is wrong */ if (mpz_sgn(SC[ik]) >= 0 && mpz_sizeinbase(SC[ik], 2) <= mpz_sizeinbase(R, 2) && rt != 11 && rt != 12 && rt != 13 && rt != 14 && rt != 15 && rt != 16 && rt != 17) vf_fail(NULL, "%s raised", w); else vf_statf_add(1, "x.raised.%s", G2R[rt]); }
	else expect_g2(w, X, e);
	mpz_clear(e); bn_free(k); bn_free(l); bn_free(seven); g2_free(X); g2_free(Q1);
}
/* g1m: routine, scalar index */
static const char *G1R[] = {"g1_mul", "g1_mul_gen", "g1_mul_sec", "g1_mul_dig", "g1_mul_pre+fix", "ep_mul_basic", "ep_mul_slide", "ep_mul_monty", "ep_mul_lwnaf", "ep_mul_lwreg", "g1_mul_sim", "g1_mul_sim_gen", "g1_mul_any"};
#define NG1R 13
static void do_g1m(vf_case *c) {
	int rt = (int)mpz_get_si(c->v[0]), ik = (int)mpz_get_si(c->v[1]), th = 0; bn_t k, l; bn_null(k); bn_new(k); bn_null(l); bn_new(l); sc_bn(k, ik); sc_bn(l, (ik + 3) % NSC); g1_t X, P1; g1_null(X); g1_new(X); g1_null(P1); g1_new(P1); mpz_t e; mpz_init_set(e, SC[ik]);
	bn_t seven; bn_null(seven); bn_new(seven); bn_set_dig(seven, 7); g1_mul_gen(P1, seven); static g1_t TB[RLC_EP_TABLE_MAX]; static int tbi = 0; if (!tbi) { for (int i = 0; i < RLC_EP_TABLE_MAX; i++) { g1_null(TB[i]); g1_new(TB[i]); } tbi = 1; }
	int regular = rt == 2 || rt == 7 || rt == 9; if (regular && (mpz_sgn(SC[ik]) < 0 || mpz_cmp(SC[ik], R) > 0)) { vf_stat_add("x.out_of_range_scalar_not_offered", 1); return; }
	switch (rt) { case 0: VF_TRY(th, g1_mul(X, P0, k)); break; case 1: VF_TRY(th, g1_mul_gen(X, k)); break; case 2: VF_TRY(th, g1_mul_sec(X, P0, k)); break;
		case 3: { dig_t d = (dig_t)(0x9E3779B97F4A7C15ULL >> (ik % 60)); VF_TRY(th, g1_mul_dig(X, P0, d)); mpz_import(e, 1, 1, sizeof d, 0, 0, &d); break; }
		case 4: VF_TRY(th, g1_mul_pre(TB, P0)); if (!th) VF_TRY(th, g1_mul_fix(X, (const g1_t *)TB, k)); break;
		case 5: VF_TRY(th, ep_mul_basic(X, P0, k)); break; case 6: VF_TRY(th, ep_mul_slide(X, P0, k)); break; case 7: VF_TRY(th, ep_mul_monty(X, P0, k)); break; case 8: VF_TRY(th, ep_mul_lwnaf(X, P0, k)); break; case 9: VF_TRY(th, ep_mul_lwreg(X, P0, k)); break;
		case 10: VF_TRY(th, g1_mul_sim(X, P0, k, P1, l)); mpz_addmul_ui(e, SC[(ik + 3) % NSC], 7); break; case 11: VF_TRY(th, g1_mul_sim_gen(X, k, P1, l)); mpz_addmul_ui(e, SC[(ik + 3) % NSC], 7); break; default: VF_TRY(th, g1_mul_any(X, P0, k)); break; }
	char w[96]; snprintf(w, sizeof w, "%s with scalar s%d", G1R[rt], ik);
	if (th) { if (mpz_sgn(SC[ik]) >= 0 && mpz_sizeinbase(SC[ik], 2) <= mpz_sizeinbase(R, 2) && rt != 10 && rt != 11) vf_fail(NULL, "%s raised", w); else vf_statf_add(1, "x.raised.%s", G1R[rt]); } else expect_g1(w, X, e);
	mpz_clear(e); bn_free(k); bn_free(l); bn_free(seven); g1_free(X); g1_free(P1);
}
/* g2l: index i, index j, form */
static const long LI[] = {0, 1, 2, 3, 5, -1, -2, -3, 7, 1000003, -1000003, 4};
#define NLI 12
static const char *LFN[] = {"g2_add", "g2_sub", "add_basic", "add_projc", "add_projc (both operands projective)", "add_projc (first projective)", "add_projc (second projective)", "g2_dbl", "dbl_basic", "dbl_projc", "dbl_projc (projective operand)", "g2_neg", "g2_sub (projective operands)"};
#define NLF 13
static void mk_g2(g2_t X, long i, int proj) { bn_t k; bn_null(k); bn_new(k); if (i < 0) { bn_set_dig(k, (dig_t)(-i)); bn_neg(k, k); } else bn_set_dig(k, (dig_t)i); if (!proj) { g2_mul_gen(X, k); } else { /* [i]G = [i-1]G + G left un-normalised (for i = 1: [2]G - G) */ g2_t t; g2_null(t); g2_new(t); bn_t m; bn_null(m); bn_new(m); if (i == 1) { bn_set_dig(m, 2); g2_mul_gen(t, m); g2_neg(X, Q0); G2FN(add_projc)(X, t, X); } else { bn_sub_dig(m, k, 1); g2_mul_gen(t, m); if (g2_is_infty(t)) g2_copy(X, Q0); else G2FN(add_projc)(X, t, Q0); } g2_free(t); bn_free(m); } bn_free(k); }
static void do_g2l(vf_case *c) {
	int ii = (int)mpz_get_si(c->v[0]), jj = (int)mpz_get_si(c->v[1]), f = (int)mpz_get_si(c->v[2]), th = 0; long i = LI[ii], j = LI[jj]; g2_t A, B, X; g2_null(A); g2_new(A); g2_null(B); g2_new(B); g2_null(X); g2_new(X); mpz_t e; mpz_init(e);
	int pa = f == 4 || f == 5 || f == 10 || f == 12, pb = f == 4 || f == 6 || f == 12; mk_g2(A, i, pa && i != 0); mk_g2(B, j, pb && j != 0);
	switch (f) { case 0: VF_TRY(th, g2_add(X, A, B)); mpz_set_si(e, i + j); break; case 1: case 12: VF_TRY(th, g2_sub(X, A, B)); mpz_set_si(e, i - j); break; case 2: VF_TRY(th, G2FN(add_basic)(X, A, B)); mpz_set_si(e, i + j); break;
		case 3: case 4: case 5: case 6: VF_TRY(th, G2FN(add_projc)(X, A, B)); mpz_set_si(e, i + j); break; case 7: VF_TRY(th, g2_dbl(X, A)); mpz_set_si(e, 2 * i); break; case 8: VF_TRY(th, G2FN(dbl_basic)(X, A)); mpz_set_si(e, 2 * i); break;
		case 9: case 10: VF_TRY(th, G2FN(dbl_projc)(X, A)); mpz_set_si(e, 2 * i); break; default: VF_TRY(th, g2_neg(X, A)); mpz_set_si(e, -i); break; }
	char w[128]; snprintf(w, sizeof w, "%s on [%ld]G2%s%ld%s", LFN[f], i, f >= 7 && f <= 11 ? " (" : ", [", f >= 7 && f <= 11 ? 0L : j, f >= 7 && f <= 11 ? ")" : "]G2");
	if (th) vf_fail(NULL, "%s raised", w); else expect_g2(w, X, e);
	mpz_clear(e); g2_free(A); g2_free(B); g2_free(X);
}
/* g2c: index i, index j, representations (bit 0: first projective, bit 1: second projective): g2_cmp says EQ exactly when the points are equal;
 * the identity appears as the canonical one and as the un-normalised sum [1]G2 + [-1]G2 (Z = 0, projective) */
static void do_g2c(vf_case *c) {
	int ii = (int)mpz_get_si(c->v[0]), jj = (int)mpz_get_si(c->v[1]), reps = (int)mpz_get_si(c->v[2]), th, v = -9; long i = LI[ii], j = LI[jj]; g2_t A, B, t; g2_null(A); g2_new(A); g2_null(B); g2_new(B); g2_null(t); g2_new(t);
	if (i == 0 && (reps & 1)) { g2_neg(t, Q0); G2FN(add_projc)(A, Q0, t); } else mk_g2(A, i, (reps & 1) && i != 0);
	if (j == 0 && (reps & 2)) { g2_neg(t, Q0); G2FN(add_projc)(B, Q0, t); } else mk_g2(B, j, (reps & 2) && j != 0);
	VF_TRY(th, v = g2_cmp(A, B)); transitions++; int want = (i == j) ? RLC_EQ : RLC_NE;
	if (th) vf_fail(NULL, "g2_cmp raised on [%ld]G2, [%ld]G2 (representations %d)", i, j, reps); else if ((v == RLC_EQ) != (want == RLC_EQ)) vf_fail(NULL, "g2_cmp([%ld]G2 %s, [%ld]G2 %s) says %s", i, (reps & 1) ? "projective" : "affine", j, (reps & 2) ? "projective" : "affine", v == RLC_EQ ? "equal" : "different");
	g2_free(A); g2_free(B); g2_free(t);
}
/* g2n: index i, index j, position of the identity (0..3, 4 = none): simultaneous normalisation of an array mixing projective points, an affine point and the identity */
static void do_g2n(vf_case *c) {
	int ii = (int)mpz_get_si(c->v[0]), jj = (int)mpz_get_si(c->v[1]), zp = (int)mpz_get_si(c->v[2]), th; long idx[4] = {LI[ii], LI[jj], LI[(ii + jj + 1) % NLI], 6}; g2_t in[4], out[4]; mpz_t e; mpz_init(e);
	for (int q = 0; q < 4; q++) { g2_null(in[q]); g2_new(in[q]); g2_null(out[q]); g2_new(out[q]); if (q == zp) { idx[q] = 0; g2_set_infty(in[q]); } else mk_g2(in[q], idx[q], q != 3 && idx[q] != 0); }
	VF_TRY(th, g2_norm_sim(out, (const g2_t *)in, 4)); if (th) { vf_fail(NULL, "g2_norm_sim raised (identity at position %d)", zp); return; }
	for (int q = 0; q < 4; q++) { char w[96]; snprintf(w, sizeof w, "g2_norm_sim, element %d = [%ld]G2 (identity at position %d)", q, idx[q], zp); mpz_set_si(e, idx[q]); transitions++; if (!g2_is_infty(out[q])) { fp_st *z = (fp_st *)out[q]->z; int one = fp_cmp_dig(z[0], 1) == RLC_EQ; for (int i = 1; i < G2D; i++) one &= fp_is_zero(z[i]); if (!one) vf_fail(NULL, "%s: z is not 1 after normalisation", w); } expect_g2(w, out[q], e); }
	/* in place */ VF_TRY(th, g2_norm_sim(in, (const g2_t *)in, 4)); if (!th) for (int q = 0; q < 4; q++) { char w[96]; snprintf(w, sizeof w, "g2_norm_sim in place, element %d = [%ld]G2 (identity at position %d)", q, idx[q], zp); mpz_set_si(e, idx[q]); expect_g2(w, in[q], e); }
	for (int q = 0; q < 4; q++) { g2_free(in[q]); g2_free(out[q]); } mpz_clear(e);
}
/* cod: group (1, 2, 0 = GT), index, compression flag: encode / decode round trip, exact sizes, wrong lengths refused, an altered tag byte never yields an off-curve point */
static void do_cod(vf_case *c) {
	int grp = (int)mpz_get_si(c->v[0]), jj = (int)mpz_get_si(c->v[1]), pack = (int)mpz_get_si(c->v[2]), th; long j = LI[jj]; static uint8_t buf[8192], b2[8192]; bn_t k; bn_null(k); bn_new(k); if (j < 0) { bn_set_dig(k, (dig_t)(-j)); bn_neg(k, k); } else bn_set_dig(k, (dig_t)j);
	if (grp == 2) { g2_t A, B; g2_null(A); g2_new(A); g2_null(B); g2_new(B); g2_mul_gen(A, k); size_t len = (size_t)g2_size_bin(A, pack); transitions++; if (len == 0 || len > 4000) { vf_fail(NULL, "g2_size_bin([%ld]G2, %d) = %zu", j, pack, len); return; }
		memset(buf, 0xA5, sizeof buf); VF_TRY(th, g2_write_bin(buf, len, A, pack)); if (th) { vf_fail(NULL, "g2_write_bin([%ld]G2, pack %d) raised with the length g2_size_bin reports", j, pack); return; } for (int i = 0; i < 8; i++) if (buf[len + i] != 0xA5) { vf_fail(NULL, "g2_write_bin wrote beyond the length it was given"); break; }
		VF_TRY(th, g2_read_bin(B, buf, len)); transitions++; if (th || g2_cmp(A, B) != RLC_EQ) vf_fail(NULL, "g2_read_bin(g2_write_bin([%ld]G2, pack %d)) is not the point (raised %d)", j, pack, th);
		if (len > 1) { VF_TRY(th, g2_write_bin(b2, len - 1, A, pack)); transitions++; if (!th) vf_fail(NULL, "g2_write_bin accepts a buffer one byte too short ([%ld]G2, pack %d)", j, pack); VF_TRY(th, g2_read_bin(B, buf, len - 1)); transitions++; if (!th) vf_fail(NULL, "g2_read_bin accepts an encoding truncated by one byte ([%ld]G2, pack %d)", j, pack); }
		VF_TRY(th, g2_read_bin(B, buf, len + 1)); transitions++; if (!th) vf_fail(NULL, "g2_read_bin accepts an encoding with one byte appended ([%ld]G2, pack %d)", j, pack);
		for (int tb = 0; tb < 8; tb++) { memcpy(b2, buf, len); b2[0] ^= (uint8_t)(1u << tb); VF_TRY(th, g2_read_bin(B, b2, len)); transitions++; if (!th && !g2_is_infty(B) && !g2_on_curve(B)) vf_fail(NULL, "g2_read_bin returns an off-curve point for the encoding of [%ld]G2 (pack %d) with bit %d of the tag byte flipped", j, pack, tb); }
		g2_free(A); g2_free(B); }
	else if (grp == 1) { g1_t A, B; g1_null(A); g1_new(A); g1_null(B); g1_new(B); g1_mul_gen(A, k); size_t len = (size_t)g1_size_bin(A, pack); transitions++; if (len == 0 || len > 4000) { vf_fail(NULL, "g1_size_bin = %zu", len); return; }
		memset(buf, 0xA5, sizeof buf); VF_TRY(th, g1_write_bin(buf, len, A, pack)); if (th) { vf_fail(NULL, "g1_write_bin([%ld]G1, pack %d) raised", j, pack); return; } for (int i = 0; i < 8; i++) if (buf[len + i] != 0xA5) { vf_fail(NULL, "g1_write_bin wrote beyond the length it was given"); break; }
		VF_TRY(th, g1_read_bin(B, buf, len)); transitions++; if (th || g1_cmp(A, B) != RLC_EQ) vf_fail(NULL, "g1_read_bin(g1_write_bin([%ld]G1, pack %d)) is not the point (raised %d)", j, pack, th);
		if (len > 1) { VF_TRY(th, g1_read_bin(B, buf, len - 1)); transitions++; if (!th) vf_fail(NULL, "g1_read_bin accepts an encoding truncated by one byte ([%ld]G1, pack %d)", j, pack); } VF_TRY(th, g1_read_bin(B, buf, len + 1)); transitions++; if (!th) vf_fail(NULL, "g1_read_bin accepts an encoding with one byte appended ([%ld]G1, pack %d)", j, pack);
		g1_free(A); g1_free(B); }
	else { gt_t A, B; gt_null(A); gt_new(A); gt_null(B); gt_new(B); gt_exp_gen(A, k); size_t len = (size_t)gt_size_bin(A, pack); transitions++; if (len == 0 || len > 8000) { vf_fail(NULL, "gt_size_bin = %zu", len); return; }
		memset(buf, 0xA5, sizeof buf); VF_TRY(th, gt_write_bin(buf, len, A, pack)); if (th) { vf_fail(K_ == 8 && pack ? "L45-fp8-size-bin-announces-unimplemented-compression" : NULL, "gt_write_bin(E0^%ld, pack %d) raised with the length gt_size_bin reports", j, pack); return; } for (int i = 0; i < 8; i++) if (buf[len + i] != 0xA5) { vf_fail(NULL, "gt_write_bin wrote beyond the length it was given"); break; }
		VF_TRY(th, gt_read_bin(B, buf, len)); transitions++; if (th || gt_cmp(A, B) != RLC_EQ) vf_fail(j == 0 && pack && th ? "L44-compressed-unity-not-decodable" : NULL, "gt_read_bin(gt_write_bin(E0^%ld, pack %d)) is not the element (raised %d)", j, pack, th);
		VF_TRY(th, gt_read_bin(B, buf, len + 1)); transitions++; if (!th) vf_fail(NULL, "gt_read_bin accepts an encoding with one byte appended (E0^%ld, pack %d)", j, pack);
		gt_free(A); gt_free(B); }
	bn_free(k);
}

/* dec: decoding of altered encodings of G1 / G2 points. args grp (1, 2), index, pack, mutation, chunk. The encoding of [j]G is altered (tag
 * values, one coordinate chunk replaced by itself + p (same residue, not reduced), by p, by all ones, by zero, incremented) and offered to
 * the decoder with THREE differently prepared destinations (identity, a finite point, a byte pattern): the verdicts must agree (the verdict
 * may not depend on what the destination held), an accepted string must give a point on the curve whose re-encoding in the same format and
 * length reproduces the input, and a chunk that is not below p is never accepted. */
static int dec_once(int grp, void *dst_g1, void *dst_g2, const uint8_t *in, size_t len, int pack, uint8_t *re, int *on) {
	int th; *on = 1;
	if (grp == 1) { g1_st *B = dst_g1; VF_TRY(th, g1_read_bin(B, in, len)); transitions++; if (th) return 0; *on = g1_is_infty(B) || g1_on_curve(B); size_t l2 = (size_t)g1_size_bin(B, pack); if (l2 != len) { memset(re, 0, len); re[0] = 0xEE; return 1; } VF_TRY(th, g1_write_bin(re, len, B, pack)); if (th) { memset(re, 0, len); re[0] = 0xED; } return 1; }
	G2FN(st) *B = dst_g2; VF_TRY(th, g2_read_bin(B, in, len)); transitions++; if (th) return 0; *on = g2_is_infty(B) || g2_on_curve(B); size_t l2 = (size_t)g2_size_bin(B, pack); if (l2 != len) { memset(re, 0, len); re[0] = 0xEE; return 1; } VF_TRY(th, g2_write_bin(re, len, B, pack)); if (th) { memset(re, 0, len); re[0] = 0xED; } return 1;
}
static void do_dec(vf_case *c) {
	int grp = (int)mpz_get_si(c->v[0]), jj = (int)mpz_get_si(c->v[1]), pack = (int)mpz_get_si(c->v[2]), mut = (int)mpz_get_si(c->v[3]), ch = (int)mpz_get_si(c->v[4]), th; long j = LI[jj];
	static uint8_t buf[4200], re[3][4200]; bn_t k; bn_null(k); bn_new(k); if (j < 0) { bn_set_dig(k, (dig_t)(-j)); bn_neg(k, k); } else bn_set_dig(k, (dig_t)j);
	g1_t A1, D1[3]; g2_t A2, D2[3]; g1_null(A1); g1_new(A1); g2_null(A2); g2_new(A2); for (int i = 0; i < 3; i++) { g1_null(D1[i]); g1_new(D1[i]); g2_null(D2[i]); g2_new(D2[i]); }
	size_t len; if (grp == 1) { g1_mul_gen(A1, k); len = (size_t)g1_size_bin(A1, pack); VF_TRY(th, g1_write_bin(buf, len, A1, pack)); } else { g2_mul_gen(A2, k); len = (size_t)g2_size_bin(A2, pack); VF_TRY(th, g2_write_bin(buf, len, A2, pack)); }
	if (th || len < 1 || len > 4000) goto out; /* judged by op cod */
	size_t nch = (len - 1) / RLC_FP_BYTES; int unreduced = 0;
	if (mut >= 100) { buf[0] = (uint8_t)(mut - 100); } /* tag value */
	else if (len > 1) { if ((size_t)ch >= nch) goto out; uint8_t *q = buf + 1 + (size_t)ch * RLC_FP_BYTES; mpz_t v, pm; mpz_inits(v, pm, NULL); mpz_import(v, RLC_FP_BYTES, 1, 1, 1, 0, q); { bn_t pp; bn_null(pp); bn_new(pp); pp->used = RLC_FP_DIGS; pp->sign = RLC_POS; dv_copy(pp->dp, fp_prime_get(), RLC_FP_DIGS); vf_bn_get(pm, pp); bn_free(pp); }
		switch (mut) { case 0: break; case 1: mpz_add(v, v, pm); break; case 2: mpz_set(v, pm); break; case 3: mpz_set_ui(v, 1); mpz_mul_2exp(v, v, 8 * RLC_FP_BYTES); mpz_sub_ui(v, v, 1); break; case 4: mpz_set_ui(v, 0); break; case 5: mpz_add_ui(v, v, 1); break; default: mpz_sub_ui(v, v, 1); if (mpz_sgn(v) < 0) mpz_set_ui(v, 2); break; }
		if (mpz_sizeinbase(v, 2) > 8 * RLC_FP_BYTES) { mpz_clears(v, pm, NULL); goto out; } unreduced = mpz_cmp(v, pm) >= 0;
		memset(q, 0, RLC_FP_BYTES); if (mpz_sgn(v)) { size_t n = (mpz_sizeinbase(v, 2) + 7) / 8; mpz_export(q + RLC_FP_BYTES - n, NULL, 1, 1, 1, 0, v); } mpz_clears(v, pm, NULL); }
	else if (mut != 0) goto out;
	/* three destinations */
	g1_set_infty(D1[0]); g2_set_infty(D2[0]); g1_get_gen(D1[1]); g2_get_gen(D2[1]); memset(D1[2], 0x5A, sizeof(g1_st)); memset(D2[2], 0x5A, sizeof(G2FN(st))); D1[2]->coord = BASIC; D2[2]->coord = BASIC;
	int ok[3], on[3]; for (int i = 0; i < 3; i++) ok[i] = dec_once(grp, D1[i], D2[i], buf, len, pack, re[i], &on[i]);
	const char *gn = grp == 1 ? "g1_read_bin" : "g2_read_bin"; char w[160]; snprintf(w, sizeof w, "%s(encoding of [%ld]G, pack %d, mutation %d of chunk %d, tag %02x)", gn, j, pack, mut, ch, buf[0]);
	if (ok[0] != ok[1] || ok[0] != ok[2]) vf_fail(NULL, "%s: the verdict depends on the previous content of the destination (identity %d, generator %d, pattern %d)", w, ok[0], ok[1], ok[2]);
	for (int i = 0; i < 3; i++) if (ok[i]) { if (!on[i]) { vf_fail(NULL, "%s: accepted, and the result is not on the curve", w); break; } if (unreduced) { vf_fail(NULL, "%s: accepted a coordinate that is not below p", w); break; }
		if (memcmp(re[i], buf, len)) { vf_fail(NULL, "%s: accepted, but re-encoding in the same format and length gives other bytes (first byte %02x)", w, re[i][0]); break; } }
	if (mut == 0 && !ok[0]) vf_fail(NULL, "%s: the unaltered encoding was refused", w);
out:
	g1_free(A1); g2_free(A2); for (int i = 0; i < 3; i++) { g1_free(D1[i]); g2_free(D2[i]); } bn_free(k);
}
/* g2f: power, index, representation: the Frobenius endomorphism acts on G2 as multiplication by p: e(G1, frb^i([j]G2)) = E0^(j p^i) */
static void do_g2f(vf_case *c) {
	int pw = (int)mpz_get_si(c->v[0]), jj = (int)mpz_get_si(c->v[1]), proj = (int)mpz_get_si(c->v[2]), th; long j = LI[jj]; g2_t A, X; g2_null(A); g2_new(A); g2_null(X); g2_new(X); mk_g2(A, j, proj && j != 0);
	VF_TRY(th, g2_frb(X, A, pw)); mpz_t e, pp; mpz_inits(e, pp, NULL); mpz_pow_ui(pp, vf_p, (unsigned long)pw); mpz_set_si(e, j); mpz_mul(e, e, pp);
	char w[96]; snprintf(w, sizeof w, "g2_frb(., %d) on %s [%ld]G2", pw, proj ? "the projective" : "the affine", j); if (th) vf_fail(NULL, "%s raised", w); else expect_g2(w, X, e);
	/* in place */ VF_TRY(th, g2_frb(A, A, pw)); if (!th) { snprintf(w, sizeof w, "g2_frb(., %d) in place on %s [%ld]G2", pw, proj ? "the projective" : "the affine", j); expect_g2(w, A, e); }
	mpz_clears(e, pp, NULL); g2_free(A); g2_free(X);
}
/* map: message length, pattern: hashing to G1 and G2 lands in the order-r subgroups, is deterministic and separates neighbouring messages */
static void do_map(vf_case *c) {
	size_t len = mpz_get_ui(c->v[0]); unsigned pat = (unsigned)mpz_get_ui(c->v[1]); int th, v; uint8_t m[1100], m2[1100]; for (size_t i = 0; i < len; i++) m[i] = (uint8_t)(pat == 0 ? 0 : pat == 1 ? 0xFF : i * 7 + pat); memcpy(m2, m, len); if (len) m2[len / 2] ^= 1;
	g1_t P, P2; g2_t Q, Q2; g1_null(P); g1_new(P); g1_null(P2); g1_new(P2); g2_null(Q); g2_new(Q); g2_null(Q2); g2_new(Q2); bn_t n; bn_null(n); bn_new(n); pc_get_ord(n);
	VF_TRY(th, g1_map(P, m, len)); if (th) vf_fail(NULL, "g1_map raised for a %zu-byte message", len); else { transitions += 3; VF_TRY(th, v = g1_is_valid(P)); if (th || !v) vf_fail(NULL, "g1_map(%zu bytes, pattern %u): the image is not a valid element of G1", len, pat); g1_t Z; g1_null(Z); g1_new(Z); ep_mul_basic(Z, P, n); if (!g1_is_infty(Z)) vf_fail(NULL, "g1_map(%zu bytes): [r]image != O", len); g1_free(Z);
		VF_TRY(th, g1_map(P2, m, len)); if (th || g1_cmp(P, P2) != RLC_EQ) vf_fail(NULL, "g1_map is not deterministic (%zu bytes)", len); if (len) { VF_TRY(th, g1_map(P2, m2, len)); if (!th && g1_cmp(P, P2) == RLC_EQ) vf_fail(NULL, "g1_map maps two messages differing in one bit to the same point (%zu bytes)", len); } }
	VF_TRY(th, g2_map(Q, m, len)); if (th) vf_fail(NULL, "g2_map raised for a %zu-byte message", len); else { transitions += 3; VF_TRY(th, v = g2_is_valid(Q)); if (th || !v) vf_fail(NULL, "g2_map(%zu bytes, pattern %u): the image is not a valid element of G2", len, pat); g2_t Z; g2_null(Z); g2_new(Z); G2FN(mul_basic)(Z, Q, n); if (!g2_is_infty(Z)) vf_fail(NULL, "g2_map(%zu bytes): [r]image != O", len); g2_free(Z);
		VF_TRY(th, g2_map(Q2, m, len)); if (th || g2_cmp(Q, Q2) != RLC_EQ) vf_fail(NULL, "g2_map is not deterministic (%zu bytes)", len); if (len) { VF_TRY(th, g2_map(Q2, m2, len)); if (!th && g2_cmp(Q, Q2) == RLC_EQ) vf_fail(NULL, "g2_map maps two messages differing in one bit to the same point (%zu bytes)", len); } }
	g1_free(P); g1_free(P2); g2_free(Q); g2_free(Q2); bn_free(n);
}
/* gte: form, scalar index */
static const char *GER[] = {"gt_exp", "gt_exp_sec", "gt_exp_dig", "gt_exp_gen", "gt_exp_sim", "gt_inv", "gt_sqr / gt_mul", "gt_frb"};
#define NGER 8
static void do_gte(vf_case *c) {
	int rt = (int)mpz_get_si(c->v[0]), ik = (int)mpz_get_si(c->v[1]), th = 0, frbpw = 0; if (rt == 7) { /* the second argument is the Frobenius power; the element is E0^s10 (powers 0..2 also on E0^(r-1)) */ frbpw = ik; ik = frbpw < 3 ? 4 : 10; }
	bn_t k, l; bn_null(k); bn_new(k); bn_null(l); bn_new(l); sc_bn(k, ik); sc_bn(l, (ik + 5) % NSC); gt_t X, E1; gt_null(X); gt_new(X); gt_null(E1); gt_new(E1); mpz_t e; mpz_init_set(e, SC[ik]);
	if (rt == 1 && (mpz_sgn(SC[ik]) < 0 || mpz_cmp(SC[ik], R) > 0)) { vf_stat_add("x.out_of_range_scalar_not_offered", 1); return; }
	if (rt == 1 && ep_curve_frdim() < 3 && mpz_sizeinbase(SC[ik], 2) > RLC_DIG) { /* probed in a child: with fewer than three Frobenius dimensions (k = 8) the SAC exponentiation indexes its scratch entries q[1], q[2] past an array of frdim elements */
		fflush(stdout); fflush(stderr); pid_t pid = fork(); if (pid == 0) { signal(SIGSEGV, SIG_DFL); signal(SIGBUS, SIG_DFL); signal(SIGABRT, SIG_DFL); signal(SIGALRM, SIG_DFL); alarm(60); int fd = open("/dev/null", O_WRONLY); if (fd >= 0) dup2(fd, 2); int t2 = 0; RLC_TRY { gt_exp_sec(X, E0, k); } RLC_CATCH_ANY { t2 = 1; } RLC_FINALLY { } if (t2) _exit(35); mpz_t m; mpz_init(m); mpz_mod(m, SC[ik], R); gx_pow(T, &Xr, &E0r, m); _exit(get_gt(&Yr, X) && relt_eq(T, &Xr, &Yr) ? 0 : 34); }
		int st = 0; waitpid(pid, &st, 0); transitions++; if (WIFSIGNALED(st)) vf_fail("L43-gt-exp-sec-single-frobenius-dimension", "gt_exp_sec with scalar s%d dies with signal %d: out-of-bounds scratch entries in gt_exp_reg_sac when ep_curve_frdim() = %d", ik, WTERMSIG(st), (int)ep_curve_frdim()); else if (WEXITSTATUS(st) == 34) vf_fail("L43-gt-exp-sec-single-frobenius-dimension", "gt_exp_sec with scalar s%d: wrong value (ep_curve_frdim() = %d)", ik, (int)ep_curve_frdim()); else if (WEXITSTATUS(st) == 35) vf_stat_add("x.raised.gt_exp_sec", 1);
		mpz_clear(e); bn_free(k); bn_free(l); gt_free(X); gt_free(E1); return; }
	switch (rt) { case 0: VF_TRY(th, gt_exp(X, E0, k)); break; case 1: VF_TRY(th, gt_exp_sec(X, E0, k)); break; case 2: { dig_t d = (dig_t)(0x9E3779B97F4A7C15ULL >> (ik % 60)); VF_TRY(th, gt_exp_dig(X, E0, d)); mpz_import(e, 1, 1, sizeof d, 0, 0, &d); break; }
		case 3: VF_TRY(th, gt_exp_gen(X, k)); break; case 4: { bn_t s; bn_null(s); bn_new(s); bn_set_dig(s, 7); gt_exp(E1, E0, s); bn_free(s); VF_TRY(th, gt_exp_sim(X, E0, k, E1, l)); mpz_addmul_ui(e, SC[(ik + 5) % NSC], 7); break; }
		case 5: gt_exp(E1, E0, k); VF_TRY(th, gt_inv(X, E1)); mpz_neg(e, e); break; case 6: gt_exp(E1, E0, k); VF_TRY(th, gt_sqr(X, E1)); if (!th) VF_TRY(th, gt_mul(X, X, E1)); mpz_mul_ui(e, e, 3); break;
		default: { gt_exp(E1, E0, k); int pw = frbpw; VF_TRY(th, gt_frb(X, E1, pw)); mpz_t pp; mpz_init(pp); mpz_pow_ui(pp, vf_p, (unsigned long)pw); mpz_mul(e, e, pp); mpz_clear(pp); break; } }
	char w[96]; if (rt == 7) snprintf(w, sizeof w, "gt_frb(., %d) on E0^s%d", frbpw, ik); else snprintf(w, sizeof w, "%s with scalar s%d", GER[rt], ik); if (th) { if (mpz_sgn(SC[ik]) >= 0 && mpz_sizeinbase(SC[ik], 2) <= mpz_sizeinbase(R, 2)) vf_fail(NULL, "%s raised", w); else vf_statf_add(1, "x.raised.%s", GER[rt]); } else expect_pow(w, X, e);
	mpz_clear(e); bn_free(k); bn_free(l); gt_free(X); gt_free(E1);
}
/* val: kind, index */
static void do_val(vf_case *c) {
	int kind = (int)mpz_get_si(c->v[0]), idx = (int)mpz_get_si(c->v[1]), th, v = 0; bn_t k; bn_null(k); bn_new(k);
	if (kind == 0) { /* members */ sc_bn(k, idx); g1_t P; g2_t Q; gt_t e; g1_null(P); g1_new(P); g2_null(Q); g2_new(Q); gt_null(e); gt_new(e); g1_mul_gen(P, k); g2_mul_gen(Q, k); gt_exp_gen(e, k); mpz_t m; mpz_init(m); mpz_mod(m, SC[idx], R); int zero = !mpz_sgn(m); mpz_clear(m);
		transitions += 3; VF_TRY(th, v = g1_is_valid(P)); if (th || (v != 0) != !zero) vf_fail(NULL, "g1_is_valid([s%d]G1) = %d", idx, v); VF_TRY(th, v = g2_is_valid(Q)); if (th || (v != 0) != !zero) vf_fail(NULL, "g2_is_valid([s%d]G2) = %d", idx, v); VF_TRY(th, v = gt_is_valid(e)); if (th || (v != 0) != !zero) vf_fail(NULL, "gt_is_valid(E0^s%d) = %d", idx, v); g1_free(P); g2_free(Q); gt_free(e); }
	else if (kind == 1) { /* target-field elements outside the group: small integers, a dense element, E0 + 1, E0 with one coefficient altered */ gt_t e; gt_null(e); gt_new(e); gt_copy(e, E0); fp_st *s = (fp_st *)e; if (idx < 4) { gt_zero(e); fp_set_dig(s[0], (dig_t)(idx + (idx > 1))); /* 0, 1, 3, 4 */ } else if (idx == 4) { for (int i = 0; i < K_; i++) fp_set_dig(s[i], (dig_t)(i * i + 2)); } else fp_add_dig(s[(idx * 5) % K_], s[(idx * 5) % K_], 1);
		transitions++; VF_TRY(th, v = gt_is_valid(e)); if (!th && v) vf_fail(NULL, "gt_is_valid accepts an element outside the group (kind index %d)", idx); else if (th) vf_stat_add("x.rejections_by_error", 1); gt_free(e); }
	else { /* a point of the twist found by solving the curve equation: outside the order-r subgroup (the cofactor is astronomically larger than r); cofactor clearing must map it into the subgroup */
		g2_t Q, C; g2_null(Q); g2_new(Q); g2_null(C); g2_new(C); g2f_t x, rhs; G2F(null)(x); G2F(new)(x); G2F(null)(rhs); G2F(new)(rhs); int found = 0;
		for (int tr = 0; tr < 60 && !found; tr++) { G2F(zero)(x); fp_st *xs = (fp_st *)x; for (int i = 0; i < G2D; i++) fp_set_dig(xs[i], (dig_t)(idx * 97 + tr * 13 + i * 7 + 1)); G2FN(rhs)(rhs, x); VF_TRY(th, v = G2F(srt)(rhs, rhs)); if (!th && v) { G2F(copy)(Q->x, x); G2F(copy)(Q->y, rhs); G2F(set_dig)(Q->z, 1); Q->coord = BASIC; found = g2_on_curve(Q); } }
		if (!found) { vf_stat_add("x.no_twist_point_found", 1); return; }
		transitions += 3; VF_TRY(th, v = g2_is_valid(Q)); if (!th && v) vf_fail(NULL, "g2_is_valid accepts a twist point found by solving the curve equation (index %d): not an element of the order-r subgroup", idx); else if (th) vf_stat_add("x.rejections_by_error", 1);
		VF_TRY(th, G2FN(mul_cof)(C, Q)); if (th) vf_fail(NULL, "cofactor clearing raised for a twist point (index %d)", idx); else { bn_t n; bn_null(n); bn_new(n); pc_get_ord(n); g2_t Z; g2_null(Z); g2_new(Z); G2FN(mul_basic)(Z, C, n); if (!g2_is_infty(Z)) vf_fail(NULL, "cofactor clearing does not map a twist point into the order-r subgroup (index %d)", idx); if (g2_is_infty(C)) vf_stat_add("x.cofactor_image_identity", 1); else { VF_TRY(th, v = g2_is_valid(C)); if (th || !v) vf_fail(NULL, "g2_is_valid rejects the cofactor-cleared image of a twist point (index %d)", idx); } bn_free(n); g2_free(Z); }
		G2F(free)(x); G2F(free)(rhs); g2_free(Q); g2_free(C); }
	bn_free(k);
}

static void run_case(vf_case *c) {
	vf_nontrivial(); if (!vf_replaying) vf_stat_add("states", 1);
	if (!strcmp(c->op, "base")) { do_base(c); return; } if (!ready) return;
#ifdef HAVE_ALT
	if (!strcmp(c->op, "alt")) { do_alt(c); return; }
#endif
	if (!strcmp(c->op, "dec")) { do_dec(c); return; }
	if (!strcmp(c->op, "bil")) do_bil(c); else if (!strcmp(c->op, "sim")) do_sim(c); else if (!strcmp(c->op, "g2m")) do_g2m(c); else if (!strcmp(c->op, "g1m")) do_g1m(c); else if (!strcmp(c->op, "g2l")) do_g2l(c); else if (!strcmp(c->op, "g2f")) do_g2f(c); else if (!strcmp(c->op, "g2c")) do_g2c(c); else if (!strcmp(c->op, "g2n")) do_g2n(c); else if (!strcmp(c->op, "cod")) do_cod(c); else if (!strcmp(c->op, "map")) do_map(c); else if (!strcmp(c->op, "gte")) do_gte(c); else if (!strcmp(c->op, "val")) do_val(c); else vf_fail(NULL, "unknown op");
}
static vf_case K;
#define RUN2(OP, A, B) do { if (vf_mine() && !vf_expired()) { K.op = OP; K.n = 2; mpz_set_si(K.v[0], A); mpz_set_si(K.v[1], B); vf_run(&K); } } while (0)
#define RUN4(OP, A, B, C, D) do { if (vf_mine() && !vf_expired()) { K.op = OP; K.n = 4; mpz_set_si(K.v[0], A); mpz_set_si(K.v[1], B); mpz_set_si(K.v[2], C); mpz_set_si(K.v[3], D); vf_run(&K); } } while (0)
#define RUN3(OP, A, B, C) do { if (vf_mine() && !vf_expired()) { K.op = OP; K.n = 3; mpz_set_si(K.v[0], A); mpz_set_si(K.v[1], B); mpz_set_si(K.v[2], C); vf_run(&K); } } while (0)
static void enumerate(void) {
	vf_case_init(&K); char bn[64];
	if (vf_shard == 0) { K.op = "base"; K.n = 0; vf_run(&K); printf("@INFO build: parameter set %d, embedding degree %d, G2 over F_p^%d\n", ep_param_get(), K_, G2D); }
	snprintf(bn, sizeof bn, "c04-k%d-bilinearity-scalar-alphabet-squared", K_); if (vf_bound_on(bn)) { for (int a = 0; a < NSC; a++) for (int b = 0; b < NSC; b++) for (int rep = 0; rep < 2; rep++) { if (rep && (a + b) % 3) continue; RUN3("bil", a, b, rep); } vf_bound_done(bn); }
#ifdef HAVE_ALT
	snprintf(bn, sizeof bn, "c04-k%d-tate-and-weil-bilinearity-and-multi-pairings", K_); if (vf_bound_on(bn)) {
		/* the Weil pairing costs several Miller loops: the quick tier takes every second scalar of the alphabet for it */
		for (int mp = 0; mp < 2; mp++) { int st = (vf_tier || !mp) ? 1 : 2; for (int a = 0; a < NSC; a += st) for (int b = 0; b < NSC; b += st) for (int rep = 0; rep < 2; rep++) { if (rep && (a + b) % 3) continue; RUN4("alt", mp, a, b, rep); }
			for (int m = 0; m <= 3; m++) for (unsigned mask = 0; mask < 64; mask += (vf_tier ? 1 : 3)) for (int rot = 0; rot < 2; rot++) { if (m < 3 && (mask >> (2 * m))) continue; RUN4("alt", mp, 100 + (int)mask, rot, m); } }
		vf_bound_done(bn); }
#endif
	snprintf(bn, sizeof bn, "c04-k%d-multi-pairing-identity-patterns", K_); if (vf_bound_on(bn)) { for (int m = 0; m <= 3; m++) for (unsigned mask = 0; mask < 64; mask++) for (int rot = 0; rot < 2; rot++) { if (m < 3 && (mask >> (2 * m))) continue; RUN3("sim", (long)mask, rot, m); } vf_bound_done(bn); }
	snprintf(bn, sizeof bn, "c11-k%d-g2-every-multiplication-routine", K_); if (vf_bound_on(bn)) { for (int rt = 0; rt < NG2R; rt++) for (int k = 0; k < NSC; k++) RUN2("g2m", rt, k); vf_bound_done(bn); }
	snprintf(bn, sizeof bn, "c12-k%d-g1-every-multiplication-routine", K_); if (vf_bound_on(bn)) { for (int rt = 0; rt < NG1R; rt++) for (int k = 0; k < NSC; k++) RUN2("g1m", rt, k); vf_bound_done(bn); }
	snprintf(bn, sizeof bn, "c11-k%d-g2-group-law-all-index-pairs", K_); if (vf_bound_on(bn)) { for (int f = 0; f < NLF; f++) for (int i = 0; i < NLI; i++) for (int j = 0; j < NLI; j++) { if (f >= 7 && f <= 11 && j) continue; RUN3("g2l", i, j, f); } vf_bound_done(bn); }
	snprintf(bn, sizeof bn, "c11-k%d-g2-comparison-all-index-pairs-and-representations", K_); if (vf_bound_on(bn)) { for (int i = 0; i < NLI; i++) for (int j = 0; j < NLI; j++) for (int reps = 0; reps < 4; reps++) RUN3("g2c", i, j, reps); vf_bound_done(bn); }
	snprintf(bn, sizeof bn, "c11-k%d-g2-simultaneous-normalisation", K_); if (vf_bound_on(bn)) { for (int i = 1; i < NLI; i += 2) for (int j = 1; j < NLI; j += 3) for (int zp = 0; zp <= 4; zp++) RUN3("g2n", i, j, zp); vf_bound_done(bn); }
	snprintf(bn, sizeof bn, "c11-k%d-g2-frobenius-every-power-both-representations", K_); if (vf_bound_on(bn)) { for (int pw = 0; pw <= K_ + 1; pw++) for (int j = 0; j < NLI; j++) for (int pr = 0; pr < 2; pr++) { if (K_ > 24 && pw > 18 && (pw + j) % 3) continue; RUN3("g2f", pw, j, pr); } vf_bound_done(bn); }
	snprintf(bn, sizeof bn, "c12-k%d-gt-exponentiation-forms", K_); if (vf_bound_on(bn)) { for (int rt = 0; rt < NGER; rt++) for (int k = 0; k < (rt == 7 ? K_ + 2 : NSC); k++) RUN2("gte", rt, k); vf_bound_done(bn); }
	snprintf(bn, sizeof bn, "c12-k%d-validity-predicates", K_); if (vf_bound_on(bn)) { for (int k = 0; k < NSC; k++) RUN2("val", 0, k); for (int i = 0; i < 12; i++) RUN2("val", 1, i); vf_bound_done(bn); }
	snprintf(bn, sizeof bn, "c11-k%d-twist-points-outside-the-subgroup-and-cofactor", K_); if (vf_bound_on(bn)) { for (int i = 0; i < (vf_tier ? 12 : 4); i++) RUN2("val", 2, i); vf_bound_done(bn); }
	snprintf(bn, sizeof bn, "c07-k%d-decoding-altered-encodings-three-destinations", K_); if (vf_bound_on(bn)) {
		for (int grp = 1; grp <= 2; grp++) for (int j = 0; j < NLI; j++) for (int pack = 0; pack < 2; pack++) { for (int mut = 0; mut <= 6; mut++) for (int ch = 0; ch < 2 * (grp == 1 ? 1 : G2D); ch++) { if (vf_mine() && !vf_expired()) { K.op = "dec"; K.n = 5; mpz_set_si(K.v[0], grp); mpz_set_si(K.v[1], j); mpz_set_si(K.v[2], pack); mpz_set_si(K.v[3], mut); mpz_set_si(K.v[4], ch); vf_run(&K); } }
			static const int TG[] = {0, 1, 2, 3, 4, 5, 6, 7, 8, 0x10, 0x80, 0xFF}; for (int t = 0; t < 12; t++) if (vf_mine() && !vf_expired()) { K.op = "dec"; K.n = 5; mpz_set_si(K.v[0], grp); mpz_set_si(K.v[1], j); mpz_set_si(K.v[2], pack); mpz_set_si(K.v[3], 100 + TG[t]); mpz_set_si(K.v[4], 0); vf_run(&K); } }
		vf_bound_done(bn); }
	snprintf(bn, sizeof bn, "c07-k%d-group-element-encodings", K_); if (vf_bound_on(bn)) { for (int grp = 0; grp < 3; grp++) for (int j = 0; j < NLI; j++) for (int pack = 0; pack < 2; pack++) RUN3("cod", grp, j, pack); vf_bound_done(bn); }
	snprintf(bn, sizeof bn, "c13-k%d-hashing-to-the-groups", K_); if (vf_bound_on(bn)) { static const long ML[] = {0, 1, 2, 3, 7, 8, 15, 16, 31, 32, 33, 47, 48, 63, 64, 65, 100, 127, 128, 129, 200, 255, 256, 1000}; for (unsigned i = 0; i < sizeof ML / sizeof *ML; i++) for (int pat = 0; pat < 3; pat++) RUN2("map", ML[i], pat); vf_bound_done(bn); }
	vf_stat_add("transitions", transitions);
}
VF_MAIN()
