/*
 * C10 -- extension-field towers compute in the quotient rings they denote.
 * Reference: ref_ext.h (schoolbook polynomial arithmetic modulo X^d - gamma per level). The gamma of each level is
 * read from the library once per prime (X^d computed with the library's default multiplication) and VALIDATED by
 * the reference to make X^d - gamma irreducible, so the check covers "the arithmetic is that of the quotient ring"
 * and "the quotient ring is a field". Towers whose gamma fails the validation for a prime are reported and skipped.
 * An element is carried in a case as sum c_i * B^i with B = 2^(digits * digit bits).
 */
#include "vf_relic.h"
#include "ref_ext.h"

typedef void (*bin_fn)(void *, const void *, const void *);
typedef void (*un_fn)(void *, const void *);
typedef void (*frb_fn)(void *, const void *, int);
typedef void (*exp_fn)(void *, const void *, const bn_t);
typedef int (*srt_fn)(void *, const void *);
typedef int (*tst_fn)(const void *);
#define W3(name) static void w_##name(void *c, const void *a, const void *b) { name(c, a, b); }
#define W2(name) static void w_##name(void *c, const void *a) { name(c, a); }
#define WF(name) static void w_##name(void *c, const void *a, int i) { name(c, a, i); }
#define WE(name) static void w_##name(void *c, const void *a, const bn_t e) { name(c, a, e); }
#define WS(name) static int w_##name(void *c, const void *a) { return name(c, a); }
#define WT(name) static int w_##name(const void *a) { return name(a); }

W3(fp2_add_basic) W3(fp2_add_integ) W3(fp2_sub_basic) W3(fp2_sub_integ) W2(fp2_neg) W2(fp2_dbl_basic) W2(fp2_dbl_integ) W3(fp2_mul_basic) W3(fp2_mul_integ) W2(fp2_sqr_basic) W2(fp2_sqr_integ) W2(fp2_inv) WF(fp2_frb) WE(fp2_exp) W2(fp2_mul_art) WS(fp2_srt) WT(fp2_is_sqr) W3(fp2_mul)
W3(fp3_add_basic) W3(fp3_add_integ) W3(fp3_sub_basic) W3(fp3_sub_integ) W2(fp3_neg) W2(fp3_dbl_basic) W2(fp3_dbl_integ) W3(fp3_mul_basic) W3(fp3_mul_integ) W2(fp3_sqr_basic) W2(fp3_sqr_integ) W2(fp3_inv) WF(fp3_frb) WE(fp3_exp) W2(fp3_mul_art) WS(fp3_srt) WT(fp3_is_sqr) W3(fp3_mul)
#define GEN(N) W3(fp##N##_add) W3(fp##N##_sub) W2(fp##N##_neg) W2(fp##N##_dbl) W3(fp##N##_mul_basic) W3(fp##N##_mul_lazyr) W2(fp##N##_sqr_basic) W2(fp##N##_sqr_lazyr) W2(fp##N##_inv) WF(fp##N##_frb) WE(fp##N##_exp) W2(fp##N##_mul_art) W3(fp##N##_mul)
GEN(4) GEN(6) GEN(8) GEN(9) GEN(12) GEN(16) GEN(18) GEN(24) GEN(48) GEN(54)
WS(fp4_srt) WT(fp4_is_sqr) WS(fp8_srt) WT(fp8_is_sqr)
W2(fp12_conv_cyc) W2(fp12_sqr_cyc_basic) W2(fp12_sqr_cyc_lazyr) W2(fp12_inv_cyc) WE(fp12_exp_cyc) WT(fp12_test_cyc) W2(fp12_sqr_pck_basic) W2(fp12_sqr_pck_lazyr) W2(fp12_back_cyc)
W2(fp2_conv_cyc) WT(fp2_test_cyc) W2(fp2_inv_cyc) WE(fp2_exp_cyc)

typedef struct { const char *n; bin_fn f; } nbin; typedef struct { const char *n; un_fn f; } nun;
typedef struct {
	int N, deg, subidx; const char *name;
	nbin add[2], sub[2], mul[3]; nun neg, dbl[2], sqr[3], inv, art;
	frb_fn frb; exp_fn exp; bin_fn dmul; srt_fn srt; tst_fn is_sqr;
	rtower rt; int usable;
} tdesc;
#define NB(f) {#f, w_##f}
#define GT(N, D, S) {N, D, S, "fp" #N, {NB(fp##N##_add), {0, 0}}, {NB(fp##N##_sub), {0, 0}}, {NB(fp##N##_mul_basic), NB(fp##N##_mul_lazyr), {0, 0}}, NB(fp##N##_neg), {NB(fp##N##_dbl), {0, 0}}, {NB(fp##N##_sqr_basic), NB(fp##N##_sqr_lazyr), {0, 0}}, NB(fp##N##_inv), NB(fp##N##_mul_art), w_fp##N##_frb, w_fp##N##_exp, w_fp##N##_mul, 0, 0}
static tdesc TW[] = {
	{1, 1, -1, "fp"},
	{2, 2, 0, "fp2", {NB(fp2_add_basic), NB(fp2_add_integ)}, {NB(fp2_sub_basic), NB(fp2_sub_integ)}, {NB(fp2_mul_basic), NB(fp2_mul_integ), {0, 0}}, NB(fp2_neg), {NB(fp2_dbl_basic), NB(fp2_dbl_integ)}, {NB(fp2_sqr_basic), NB(fp2_sqr_integ), {0, 0}}, NB(fp2_inv), NB(fp2_mul_art), w_fp2_frb, w_fp2_exp, w_fp2_mul, w_fp2_srt, w_fp2_is_sqr},
	{3, 3, 0, "fp3", {NB(fp3_add_basic), NB(fp3_add_integ)}, {NB(fp3_sub_basic), NB(fp3_sub_integ)}, {NB(fp3_mul_basic), NB(fp3_mul_integ), {0, 0}}, NB(fp3_neg), {NB(fp3_dbl_basic), NB(fp3_dbl_integ)}, {NB(fp3_sqr_basic), NB(fp3_sqr_integ), {0, 0}}, NB(fp3_inv), NB(fp3_mul_art), w_fp3_frb, w_fp3_exp, w_fp3_mul, w_fp3_srt, w_fp3_is_sqr},
	GT(4, 2, 1), GT(6, 3, 1), GT(8, 2, 3), GT(9, 3, 2), GT(12, 2, 4), GT(16, 2, 5), GT(18, 2, 6), GT(24, 3, 5), GT(48, 2, 10), GT(54, 3, 9),
};
#define NTW ((int)(sizeof TW / sizeof *TW))

static unsigned long long transitions = 0;
static mpz_t cur_sel, BB; static int BBITS;
static const int tiny = (WSIZE != 64);
static fp_st EA[RX_MAXN], EB_[RX_MAXN], EC[RX_MAXN], ES[RX_MAXN];

static void harness_setup(void) {
	if (core_init() != RLC_OK) exit(2);
	vf_reseed(); rx_init(); mpz_inits(cur_sel, BB, NULL); mpz_set_si(cur_sel, -1);
	BBITS = RLC_FP_DIGS * VF_DIGB; mpz_set_ui(BB, 1); mpz_mul_2exp(BB, BB, (unsigned long)BBITS);
	TW[4 - 1].srt = 0;
	for (int i = 0; i < NTW; i++) { TW[i].rt.n = TW[i].N; TW[i].rt.deg = TW[i].deg; TW[i].rt.sub = TW[i].subidx >= 0 ? &TW[TW[i].subidx].rt : NULL; for (int j = 0; j < RX_MAXN; j++) mpz_init(TW[i].rt.gamma[j]); }
	for (int i = 0; i < NTW; i++) { if (TW[i].N == 4) { TW[i].srt = w_fp4_srt; TW[i].is_sqr = w_fp4_is_sqr; } if (TW[i].N == 8) { TW[i].srt = w_fp8_srt; TW[i].is_sqr = w_fp8_is_sqr; } }
}
static void put(fp_st *dst, const rtower *T, const relt *e) { for (int i = 0; i < T->n; i++) vf_fp_set(dst[i], e->c[i]); }
static int get(relt *e, const rtower *T, const fp_st *src) { int ok = 1; for (int i = 0; i < T->n; i++) ok &= vf_fp_get(e->c[i], src[i]); return ok; }
static void unpack(relt *e, const rtower *T, const mpz_t v) { mpz_t t; mpz_init_set(t, v); for (int i = 0; i < T->n; i++) { mpz_fdiv_r_2exp(e->c[i], t, (unsigned long)BBITS); mpz_mod(e->c[i], e->c[i], RX_P); mpz_fdiv_q_2exp(t, t, (unsigned long)BBITS); } mpz_clear(t); }
static void pack(mpz_t v, const rtower *T, const relt *e) { mpz_set_ui(v, 0); for (int i = T->n - 1; i >= 0; i--) { mpz_mul_2exp(v, v, (unsigned long)BBITS); mpz_add(v, v, e->c[i]); } }
static void junk(fp_st *c, int n) { memset(c, 0x5A, sizeof(fp_st) * (size_t)n); }

/* install the prime and learn / validate the tower constants */
static int select_prime(const mpz_t sel) {
	if (!mpz_cmp(sel, cur_sel)) return 1;
	int th;
	if (tiny) { bn_t p; bn_new(p); vf_bn_set(p, sel); VF_TRY(th, fp_prime_set_dense(p)); }
	else VF_TRY(th, fp_param_set((int)mpz_get_si(sel)));
	if (th) { mpz_set_si(cur_sel, -1); return 0; }
	vf_fp_sync(); mpz_set(RX_P, vf_p); mpz_set(cur_sel, sel);
	TW[0].usable = 1;
	for (int t = 1; t < NTW; t++) {
		tdesc *D = &TW[t]; D->usable = 0;
		if (!TW[D->subidx].usable) continue;
		/* tower preconditions visible in the library: fp2 needs a quadratic, fp3 a cubic non-residue */
		if (D->N == 3 && mpz_fdiv_ui(vf_p, 3) != 1) continue;
		int ns = D->rt.sub->n;
		relt X, G; relt_init(&X); relt_init(&G); relt_zero(&D->rt, &X); mpz_set_ui(X.c[ns], 1);
		put(EA, &D->rt, &X); fp_st acc[RX_MAXN]; memcpy(acc, EA, sizeof(fp_st) * (size_t)D->N);
		int bad = 0;
		for (int i = 1; i < D->deg; i++) { VF_TRY(th, D->dmul(acc, acc, EA)); if (th) bad = 1; }
		if (!bad) { get(&G, &D->rt, acc); for (int i = ns; i < D->N; i++) if (mpz_sgn(G.c[i])) bad = 1; }
		if (!bad) { for (int i = 0; i < ns; i++) mpz_set(D->rt.gamma[i], G.c[i]); D->usable = rx_gamma_ok(&D->rt); }
		if (vf_shard == 0 && !vf_replaying) printf("@INFO prime %s: tower %s %s\n", mpz_get_str(NULL, 16, sel), D->name, D->usable ? "is a field (gamma validated)" : (bad ? "not available" : "X^d - gamma is reducible: not a field for this prime, skipped"));
		relt_clear(&X); relt_clear(&G);
	}
	return 1;
}

static void expect(const tdesc *D, const char *what, const fp_st *got, const relt *exp, const char *kf) {
	relt g; relt_init(&g); transitions++;
	int canon = get(&g, &D->rt, got);
	if (!relt_eq(&D->rt, &g, exp)) { int i = 0; while (!mpz_cmp(g.c[i], exp->c[i])) i++; char b[400]; gmp_snprintf(b, sizeof b, "%s: coefficient %d expected %Zx got %Zx", what, i, exp->c[i], g.c[i]); vf_fail(kf, "%s", b); }
	else if (!canon) vf_fail(kf, "%s: a coefficient is not canonical (>= p)", what);
	relt_clear(&g);
}

static void do_bin(vf_case *c) {
	tdesc *D = &TW[mpz_get_si(c->v[1])]; const rtower *T = &D->rt; int th;
	relt a, b, r; relt_init(&a); relt_init(&b); relt_init(&r); unpack(&a, T, c->v[2]); unpack(&b, T, c->v[3]);
	for (int k = 0; k < 3; k++) { /* add, sub, mul */
		nbin *tab = k == 0 ? D->add : k == 1 ? D->sub : D->mul; int nv = k == 2 ? 3 : 2;
		if (k == 0) relt_add(T, &r, &a, &b); else if (k == 1) relt_sub(T, &r, &a, &b); else relt_mul(T, &r, &a, &b);
		for (int v = 0; v < nv; v++) { if (!tab[v].f) continue;
			for (int al = 0; al < 4; al++) { if (al == 3 && !relt_eq(T, &a, &b)) continue;
				put(EA, T, &a); put(EB_, T, &b); junk(EC, D->N); memcpy(ES, EA, sizeof(fp_st) * (size_t)D->N);
				fp_st *pa = EA, *pb = al == 3 ? EA : EB_, *pc = al == 1 ? EA : al == 2 ? EB_ : EC;
				VF_TRY(th, tab[v].f(pc, pa, pb)); char w[64]; snprintf(w, sizeof w, "%s[alias %d]", tab[v].n, al);
				if (th) vf_fail(NULL, "%s raised %d", w, th); else expect(D, w, pc, &r, NULL);
				if (pc != EA && memcmp(EA, ES, sizeof(fp_st) * (size_t)D->N)) vf_fail(NULL, "%s: first input modified", w);
			} }
	}
	relt_clear(&a); relt_clear(&b); relt_clear(&r);
}
static void do_un(vf_case *c) {
	tdesc *D = &TW[mpz_get_si(c->v[1])]; const rtower *T = &D->rt; int th;
	relt a, r, one; relt_init(&a); relt_init(&r); relt_init(&one); unpack(&a, T, c->v[2]); relt_one(T, &one);
	/* neg, dbl, sqr variants */
	relt z; relt_init(&z); relt_zero(T, &z);
	relt_sub(T, &r, &z, &a); put(EA, T, &a); junk(EC, D->N); VF_TRY(th, D->neg.f(EC, EA)); if (th) vf_fail(NULL, "%s raised", D->neg.n); else expect(D, D->neg.n, EC, &r, NULL);
	relt_add(T, &r, &a, &a); for (int v = 0; v < 2; v++) if (D->dbl[v].f) { put(EA, T, &a); junk(EC, D->N); VF_TRY(th, D->dbl[v].f(EC, EA)); if (th) vf_fail(NULL, "%s raised", D->dbl[v].n); else expect(D, D->dbl[v].n, EC, &r, NULL); }
	relt_mul(T, &r, &a, &a); for (int v = 0; v < 3; v++) if (D->sqr[v].f) for (int al = 0; al < 2; al++) { put(EA, T, &a); junk(EC, D->N); fp_st *pc = al ? EA : EC; VF_TRY(th, D->sqr[v].f(pc, EA)); if (th) vf_fail(NULL, "%s raised", D->sqr[v].n); else expect(D, D->sqr[v].n, pc, &r, NULL); }
	/* multiplication by the adjoined root X */
	{ relt X; relt_init(&X); relt_zero(T, &X); mpz_set_ui(X.c[T->sub->n], 1); relt_mul(T, &r, &a, &X); put(EA, T, &a); junk(EC, D->N); VF_TRY(th, D->art.f(EC, EA)); if (th) vf_fail(NULL, "%s raised", D->art.n); else expect(D, D->art.n, EC, &r, NULL); relt_clear(&X); }
	/* inverse: a * inv(a) = 1 ; zero must be refused */
	put(EA, T, &a); junk(EC, D->N); VF_TRY(th, D->inv.f(EC, EA)); transitions++;
	if (relt_is_zero(T, &a)) { if (!th) vf_fail(NULL, "%s: inversion of zero not reported", D->inv.n); }
	else if (th) vf_fail(NULL, "%s raised %d", D->inv.n, th);
	else { relt g; relt_init(&g); if (!get(&g, T, EC)) vf_fail(NULL, "%s: non-canonical coefficient", D->inv.n); relt_mul(T, &g, &g, &a); if (!relt_eq(T, &g, &one)) vf_fail(NULL, "%s: a * inv(a) != 1", D->inv.n); relt_clear(&g);
		put(EA, T, &a); VF_TRY(th, D->inv.f(EA, EA)); if (!th) { relt g2; relt_init(&g2); get(&g2, T, EA); relt_mul(T, &g2, &g2, &a); if (!relt_eq(T, &g2, &one)) vf_fail(NULL, "%s (c==a): a * inv(a) != 1", D->inv.n); relt_clear(&g2); } }
	relt_clear(&a); relt_clear(&r); relt_clear(&one); relt_clear(&z);
}
/* known finding: the Frobenius constants of fp16, fp48, fp54 (and of fp4 at primes that are not pairing-friendly) are derived for the
 * pairing families those towers serve; at other primes where the tower is nevertheless a field the map is not x -> x^p */
static int pairing_prime(void) { return fp_prime_get_par_sps(NULL) != NULL || 1; }
static const char *frb_kf(const tdesc *D) {
	/* at the primes of the family a tower serves nothing is excused (K16 / AFG16 / FM16 for fp16, B48 for fp48, SG54 for fp54) */
	int id = fp_param_get(), native = 0;
	if (D->N == 16) native = id == K16_330 || id == K16_766 || id == AFG16_510 || id == AFG16_766 || id == FM16_765;
	if (D->N == 48) native = id == B48_575;
	if (D->N == 54) native = id == SG54_569;
	if ((D->N == 16 || D->N == 48 || D->N == 54) && !native) return "L31-frobenius-constants-foreign-prime";
#if WSIZE == 64 && FP_PRIME == 256
	if ((D->N == 4 || D->N == 8) && fp_param_get() != BN_256 && fp_param_get() != SM9_256) return "L31-frobenius-constants-foreign-prime";
#endif
	return NULL;
}
/* Frobenius: every power 0..N against iterated reference p-th powering */
static void do_frb(vf_case *c) {
	tdesc *D = &TW[mpz_get_si(c->v[1])]; const rtower *T = &D->rt; int th;
	relt a, r; relt_init(&a); relt_init(&r); unpack(&a, T, c->v[2]); relt_set(T, &r, &a);
	for (int i = 0; i <= D->N; i++) {
		put(EA, T, &a); junk(EC, D->N); VF_TRY(th, D->frb(EC, EA, i)); char w[48]; snprintf(w, sizeof w, "%s_frb(%d)", D->name, i);
		if (th) vf_fail(frb_kf(D), "%s raised %d", w, th); else expect(D, w, EC, &r, frb_kf(D));
		relt_pow(T, &r, &r, RX_P);
	}
	relt_clear(&a); relt_clear(&r);
}
static void do_exp(vf_case *c) { /* sel, tid, a, e */
	tdesc *D = &TW[mpz_get_si(c->v[1])]; const rtower *T = &D->rt; int th;
	relt a, r, one; relt_init(&a); relt_init(&r); relt_init(&one); unpack(&a, T, c->v[2]); relt_one(T, &one);
	bn_t e; bn_new(e); if (!vf_bn_set(e, c->v[3])) return;
	mpz_t k; mpz_init(k); mpz_abs(k, c->v[3]); relt_pow(T, &r, &a, k); mpz_clear(k);
	put(EA, T, &a); junk(EC, D->N); VF_TRY(th, D->exp(EC, EA, e)); transitions++;
	if (mpz_sgn(c->v[3]) < 0) { if (relt_is_zero(T, &a)) { if (!th) vf_fail(NULL, "%s_exp: 0 to a negative power not reported", D->name); }
		else if (th) vf_fail(NULL, "%s_exp raised %d", D->name, th); else { relt g; relt_init(&g); get(&g, T, EC); relt_mul(T, &g, &g, &r); if (!relt_eq(T, &g, &one)) vf_fail(NULL, "%s_exp: a^e * a^(-e) != 1 for a negative exponent", D->name); relt_clear(&g); } }
	else if (th) vf_fail(NULL, "%s_exp raised %d", D->name, th); else { char w[32]; snprintf(w, sizeof w, "%s_exp", D->name); expect(D, w, EC, &r, NULL); }
	relt_clear(&a); relt_clear(&r); relt_clear(&one);
}
static void do_srt(vf_case *c) {
	tdesc *D = &TW[mpz_get_si(c->v[1])]; const rtower *T = &D->rt; int th, r;
	if (!D->srt) return;
	relt a, e, one; relt_init(&a); relt_init(&e); relt_init(&one); unpack(&a, T, c->v[2]); relt_one(T, &one);
	mpz_t q; mpz_init(q); rx_field_size(q, T); mpz_sub_ui(q, q, 1); mpz_fdiv_q_2exp(q, q, 1); relt_pow(T, &e, &a, q); mpz_clear(q);
	int issq = relt_is_zero(T, &a) || relt_eq(T, &e, &one);
	put(EA, T, &a); transitions += 2;
	const char *kf = frb_kf(D); /* is_sqr / srt are built on the Frobenius map */
	VF_TRY(th, r = D->is_sqr(EA)); if (th) vf_fail(kf, "%s_is_sqr raised", D->name); else if ((r != 0) != issq) vf_fail(kf, "%s_is_sqr: says %d for an element that %s a square", D->name, r, issq ? "is" : "is not");
	junk(EC, D->N); VF_TRY(th, r = D->srt(EC, EA));
	if (th) vf_fail(kf, "%s_srt raised %d", D->name, th); else if ((r != 0) != issq) vf_fail(kf, "%s_srt: returns %d for an element that %s a square", D->name, r, issq ? "is" : "is not");
	else if (r) { relt g; relt_init(&g); if (!get(&g, T, EC)) vf_fail(kf, "%s_srt: non-canonical root", D->name); relt_mul(T, &g, &g, &g); if (!relt_eq(T, &g, &a)) vf_fail(kf, "%s_srt: root squared is not the argument", D->name); relt_clear(&g); }
	relt_clear(&a); relt_clear(&e); relt_clear(&one);
}
/* cyclotomic subgroup of fp12: args sel, tid(=12's index), a ; g = a^((p^6-1)(p^2+1)) by the reference */
static void do_cyc(vf_case *c) {
	tdesc *D = &TW[mpz_get_si(c->v[1])]; const rtower *T = &D->rt; int th;
	if (D->N != 12) return;
	relt a, g, t, r, one; relt_init(&a); relt_init(&g); relt_init(&t); relt_init(&r); relt_init(&one); unpack(&a, T, c->v[2]); relt_one(T, &one);
	if (relt_is_zero(T, &a)) goto out;
	{ mpz_t e; mpz_init(e); mpz_pow_ui(e, RX_P, 6); mpz_sub_ui(e, e, 1); relt_pow(T, &t, &a, e); mpz_pow_ui(e, RX_P, 2); mpz_add_ui(e, e, 1); relt_pow(T, &g, &t, e); mpz_clear(e); }
	put(EA, T, &a); junk(EC, 12); VF_TRY(th, w_fp12_conv_cyc(EC, EA)); if (th) vf_fail(NULL, "fp12_conv_cyc raised"); else expect(D, "fp12_conv_cyc", EC, &g, NULL);
	put(EA, T, &g); transitions++; { int tc; VF_TRY(th, tc = w_fp12_test_cyc(EA)); if (!th && !tc) vf_fail(NULL, "fp12_test_cyc rejects an element of the cyclotomic subgroup"); }
	put(EA, T, &a); transitions++; { int tc; VF_TRY(th, tc = w_fp12_test_cyc(EA)); if (!th && tc && !relt_eq(T, &a, &g)) { /* a is cyclotomic iff a^(p^4 - p^2 + 1 ... ) ; decide with the reference: a^(Phi_12(p) ... ) */ mpz_t e; mpz_init(e); mpz_pow_ui(e, RX_P, 4); mpz_t p2; mpz_init(p2); mpz_pow_ui(p2, RX_P, 2); mpz_sub(e, e, p2); mpz_add_ui(e, e, 1); relt_pow(T, &t, &a, e); mpz_clears(e, p2, NULL); if (!relt_eq(T, &t, &one)) vf_fail(NULL, "fp12_test_cyc accepts an element outside the cyclotomic subgroup"); } }
	/* cyclotomic squarings, inverse (= conjugate), exponentiation on g */
	relt_mul(T, &r, &g, &g);
	put(EA, T, &g); junk(EC, 12); VF_TRY(th, w_fp12_sqr_cyc_basic(EC, EA)); if (th) vf_fail(NULL, "fp12_sqr_cyc_basic raised"); else expect(D, "fp12_sqr_cyc_basic", EC, &r, NULL);
	put(EA, T, &g); junk(EC, 12); VF_TRY(th, w_fp12_sqr_cyc_lazyr(EC, EA)); if (th) vf_fail(NULL, "fp12_sqr_cyc_lazyr raised"); else expect(D, "fp12_sqr_cyc_lazyr", EC, &r, NULL);
	put(EA, T, &g); junk(EC, 12); VF_TRY(th, w_fp12_inv_cyc(EC, EA)); if (th) vf_fail(NULL, "fp12_inv_cyc raised"); else { relt q; relt_init(&q); get(&q, T, EC); relt_mul(T, &q, &q, &g); if (!relt_eq(T, &q, &one)) vf_fail(NULL, "fp12_inv_cyc: g * inv_cyc(g) != 1"); relt_clear(&q); transitions++; }
	/* compressed squaring + decompression: after 1..4 compressed squarings back_cyc must give g^(2^k) */
	for (int var = 0; var < 2; var++) { put(EA, T, &g); relt_set(T, &r, &g); fp_st cur[12]; memcpy(cur, EA, sizeof cur);
		for (int k = 1; k <= 4; k++) { VF_TRY(th, (var ? w_fp12_sqr_pck_lazyr : w_fp12_sqr_pck_basic)(cur, cur)); if (th) { vf_fail(NULL, "fp12_sqr_pck raised"); break; } relt_mul(T, &r, &r, &r);
			fp_st dec[12]; memcpy(dec, cur, sizeof dec); VF_TRY(th, w_fp12_back_cyc(dec, cur)); char w[48]; snprintf(w, sizeof w, "fp12_sqr_pck_%s+back_cyc(%d)", var ? "lazyr" : "basic", k); if (th) vf_fail(NULL, "%s raised %d", w, th); else expect(D, w, dec, &r, NULL); } }
	{ long es[] = {0, 1, 2, 3, -1, -5, 65537}; for (unsigned i = 0; i < 7; i++) { bn_t e; bn_new(e); mpz_t z; mpz_init_set_si(z, es[i]); vf_bn_set(e, z); mpz_abs(z, z); relt_pow(T, &r, &g, z); if (es[i] < 0) { /* inverse = conjugate-free: r^-1 via pow(q-1-...) : use g^(ord - |e|) is unknown; check product instead */ }
		put(EA, T, &g); junk(EC, 12); VF_TRY(th, w_fp12_exp_cyc(EC, EA, e)); if (th) vf_fail(NULL, "fp12_exp_cyc raised"); else if (es[i] >= 0) expect(D, "fp12_exp_cyc", EC, &r, NULL); else { relt q; relt_init(&q); get(&q, T, EC); relt_mul(T, &q, &q, &r); if (!relt_eq(T, &q, &one)) vf_fail(NULL, "fp12_exp_cyc: negative exponent is not the inverse power"); relt_clear(&q); transitions++; } mpz_clear(z); } }
out:
	relt_clear(&a); relt_clear(&g); relt_clear(&t); relt_clear(&r); relt_clear(&one);
}


/* simultaneous inversion: args sel, tid, a, b. The batch {a, b, ab + 1, a} (non-zero members only) through fpN_inv_sim with a separate
 * output array and in place, for every batch length 1..4; each result times its input must be 1 in the reference ring. */
typedef void (*isim_fn)(void *, const void *, int);
static void w_is2(void *c, const void *a, int n) { fp2_inv_sim((fp2_t *)c, (const fp2_t *)a, n); }
static void w_is3(void *c, const void *a, int n) { fp3_inv_sim((fp3_t *)c, (const fp3_t *)a, n); }
static void w_is4(void *c, const void *a, int n) { fp4_inv_sim((fp4_t *)c, (const fp4_t *)a, n); }
static void w_is8(void *c, const void *a, int n) { fp8_inv_sim((fp8_t *)c, (const fp8_t *)a, n); }
static void w_is9(void *c, const void *a, int n) { fp9_inv_sim((fp9_t *)c, (const fp9_t *)a, n); }
static void w_is16(void *c, const void *a, int n) { fp16_inv_sim((fp16_t *)c, (const fp16_t *)a, n); }
static void do_isim(vf_case *c) {
	long tid = mpz_get_si(c->v[1]); tdesc *D = &TW[tid]; const rtower *T = &D->rt; int th; int N = D->N;
	isim_fn f = N == 2 ? w_is2 : N == 3 ? w_is3 : N == 4 ? w_is4 : N == 8 ? w_is8 : N == 9 ? w_is9 : N == 16 ? w_is16 : NULL; if (!f) return;
	relt e[4], one, q; for (int i = 0; i < 4; i++) relt_init(&e[i]); relt_init(&one); relt_init(&q); relt_one(T, &one);
	unpack(&e[0], T, c->v[2]); unpack(&e[1], T, c->v[3]); relt_mul(T, &e[2], &e[0], &e[1]); relt_add(T, &e[2], &e[2], &one); relt_set(T, &e[3], &e[0]);
	int m = 0; relt *L[4]; for (int i = 0; i < 4; i++) if (!relt_is_zero(T, &e[i])) L[m++] = &e[i];
	static fp_st IN[4 * 16], OUT[4 * 16];
	for (int n = 1; n <= m; n++) for (int al = 0; al < 2; al++) {
		for (int i = 0; i < n; i++) put(IN + i * N, T, L[i]); junk(OUT, 4 * N);
		fp_st *o = al ? IN : OUT; VF_TRY(th, f(o, IN, n)); char w[64]; snprintf(w, sizeof w, "fp%d_inv_sim(n = %d%s)", N, n, al ? ", in place" : ", separate output");
		if (th) { vf_fail(NULL, "%s raised %d", w, th); continue; }
		for (int i = 0; i < n; i++) { transitions++; if (!get(&q, T, o + i * N)) { vf_fail(NULL, "%s: element %d has a non-canonical coefficient", w, i); break; } relt_mul(T, &q, &q, L[i]); if (!relt_eq(T, &q, &one)) { vf_fail(NULL, "%s: element %d times its input is not 1", w, i); break; } }
		if (!al) for (int i = 0; i < n; i++) { relt t; relt_init(&t); get(&t, T, IN + i * N); if (!relt_eq(T, &t, L[i])) { vf_fail(NULL, "%s: input element %d modified", w, i); relt_clear(&t); break; } relt_clear(&t); }
	}
	for (int i = 0; i < 4; i++) relt_clear(&e[i]); relt_clear(&one); relt_clear(&q);
}

/* ---------------------------------------------------------------- cyclotomic subgroup of the towers 8, 16, 18, 24, 48, 54 (fp12 has its own op) */
typedef void (*sim_fn)(void *, const void *, const bn_t, const void *, const bn_t);
typedef void (*sps_fn)(void *, const void *, const int *, int, int);
typedef void (*bsim_fn)(void *, const void *, int);
typedef struct { int N; un_fn conv; tst_fn test; un_fn sqr[2]; const char *sqrn[2]; un_fn pck[2]; un_fn back; bsim_fn backsim; un_fn inv; exp_fn exp; sim_fn sim; sps_fn sps; } cycdesc;
#define WSIM(name) static void w_##name(void *e, const void *a, const bn_t b, const void *c, const bn_t d) { name(e, a, b, c, d); }
#define WSPS(name) static void w_##name(void *c, const void *a, const int *b, int l, int s) { name(c, a, b, l, s); }
#define WBS(name, T) static void w_##name(void *c, const void *a, int n) { name((T *)c, (const T *)a, n); }
#define CYCFULL(N) W2(fp##N##_conv_cyc) WT(fp##N##_test_cyc) W2(fp##N##_sqr_cyc_basic) W2(fp##N##_sqr_cyc_lazyr) W2(fp##N##_sqr_pck_basic) W2(fp##N##_sqr_pck_lazyr) W2(fp##N##_back_cyc) WBS(fp##N##_back_cyc_sim, fp##N##_t) W2(fp##N##_inv_cyc) WE(fp##N##_exp_cyc) WSPS(fp##N##_exp_cyc_sps)
CYCFULL(18) CYCFULL(24) CYCFULL(48) CYCFULL(54) WSIM(fp18_exp_cyc_sim) WSIM(fp24_exp_cyc_sim) WSIM(fp48_exp_cyc_sim)
W2(fp8_conv_cyc) WT(fp8_test_cyc) W2(fp8_sqr_cyc) W2(fp8_inv_cyc) WE(fp8_exp_cyc) WSIM(fp8_exp_cyc_sim)
W2(fp16_conv_cyc) WT(fp16_test_cyc) W2(fp16_sqr_cyc) W2(fp16_inv_cyc) WE(fp16_exp_cyc) WSIM(fp16_exp_cyc_sim)
WBS(fp12_back_cyc_sim, fp12_t) WSIM(fp12_exp_cyc_sim) WSPS(fp12_exp_cyc_sps)
#define CDF(N, SIM) {N, w_fp##N##_conv_cyc, w_fp##N##_test_cyc, {w_fp##N##_sqr_cyc_basic, w_fp##N##_sqr_cyc_lazyr}, {"sqr_cyc_basic", "sqr_cyc_lazyr"}, {w_fp##N##_sqr_pck_basic, w_fp##N##_sqr_pck_lazyr}, w_fp##N##_back_cyc, w_fp##N##_back_cyc_sim, w_fp##N##_inv_cyc, w_fp##N##_exp_cyc, SIM, w_fp##N##_exp_cyc_sps}
static const cycdesc CYC[] = {
	{8, w_fp8_conv_cyc, w_fp8_test_cyc, {w_fp8_sqr_cyc, NULL}, {"sqr_cyc", NULL}, {NULL, NULL}, NULL, NULL, w_fp8_inv_cyc, w_fp8_exp_cyc, w_fp8_exp_cyc_sim, NULL},
	{16, w_fp16_conv_cyc, w_fp16_test_cyc, {w_fp16_sqr_cyc, NULL}, {"sqr_cyc", NULL}, {NULL, NULL}, NULL, NULL, w_fp16_inv_cyc, w_fp16_exp_cyc, w_fp16_exp_cyc_sim, NULL},
	{12, w_fp12_conv_cyc, w_fp12_test_cyc, {w_fp12_sqr_cyc_basic, w_fp12_sqr_cyc_lazyr}, {"sqr_cyc_basic", "sqr_cyc_lazyr"}, {w_fp12_sqr_pck_basic, w_fp12_sqr_pck_lazyr}, w_fp12_back_cyc, w_fp12_back_cyc_sim, w_fp12_inv_cyc, w_fp12_exp_cyc, w_fp12_exp_cyc_sim, w_fp12_exp_cyc_sps},
	CDF(18, w_fp18_exp_cyc_sim), CDF(24, w_fp24_exp_cyc_sim), CDF(48, w_fp48_exp_cyc_sim), CDF(54, NULL)};
/* Phi_k(p) for the towers served */
static void cyc_phi(mpz_t phi, int N) {
	mpz_t t; mpz_init(t);
	switch (N) { case 8: mpz_pow_ui(phi, RX_P, 4); mpz_add_ui(phi, phi, 1); break; case 16: mpz_pow_ui(phi, RX_P, 8); mpz_add_ui(phi, phi, 1); break;
		case 12: mpz_pow_ui(phi, RX_P, 4); mpz_pow_ui(t, RX_P, 2); mpz_sub(phi, phi, t); mpz_add_ui(phi, phi, 1); break; case 18: mpz_pow_ui(phi, RX_P, 6); mpz_pow_ui(t, RX_P, 3); mpz_sub(phi, phi, t); mpz_add_ui(phi, phi, 1); break;
		case 24: mpz_pow_ui(phi, RX_P, 8); mpz_pow_ui(t, RX_P, 4); mpz_sub(phi, phi, t); mpz_add_ui(phi, phi, 1); break; case 48: mpz_pow_ui(phi, RX_P, 16); mpz_pow_ui(t, RX_P, 8); mpz_sub(phi, phi, t); mpz_add_ui(phi, phi, 1); break;
		default: mpz_pow_ui(phi, RX_P, 18); mpz_pow_ui(t, RX_P, 9); mpz_sub(phi, phi, t); mpz_add_ui(phi, phi, 1); break; }
	mpz_clear(t);
}
static void (*cyc_exp_dig_hook)(const tdesc *D, const relt *g) = NULL; /* set below: fpN_exp_dig on a cyclotomic element (its NAF path) */
static void do_cycx(vf_case *c) {
	tdesc *D = &TW[mpz_get_si(c->v[1])]; const rtower *T = &D->rt; int th, N = D->N; const cycdesc *Y = NULL; for (unsigned i = 0; i < sizeof CYC / sizeof *CYC; i++) if (CYC[i].N == N) Y = &CYC[i]; if (!Y) return;
	relt a, g, t, r, one, q; relt_init(&a); relt_init(&g); relt_init(&t); relt_init(&r); relt_init(&one); relt_init(&q); unpack(&a, T, c->v[2]); relt_one(T, &one); mpz_t phi, e; mpz_inits(phi, e, NULL); cyc_phi(phi, N);
	static fp_st CU[4 * 54], CV[4 * 54]; char w[96];
	if (relt_is_zero(T, &a)) goto out;
	/* conversion: the result must be the easy part a^((p^k - 1) / Phi_k(p)); the full power is computed in the reference for the small towers (and in
	 * the thorough tier), membership g^Phi_k(p) = 1 always */
	put(EA, T, &a); junk(EC, N); VF_TRY(th, Y->conv(EC, EA)); transitions++; if (th) { vf_fail(NULL, "fp%d_conv_cyc raised", N); goto out; } if (!get(&g, T, EC)) { vf_fail(NULL, "fp%d_conv_cyc: non-canonical coefficient", N); goto out; }
	relt_pow(T, &t, &g, phi); if (!relt_eq(T, &t, &one)) { vf_fail(frb_kf(D), "fp%d_conv_cyc: the result is not in the cyclotomic subgroup (g^Phi_k(p) != 1)", N); goto out; }
	if (N <= 18 || vf_tier) { mpz_pow_ui(e, RX_P, (unsigned long)N); mpz_sub_ui(e, e, 1); mpz_divexact(e, e, phi); relt_pow(T, &t, &a, e); transitions++; if (!relt_eq(T, &t, &g)) vf_fail(frb_kf(D), "fp%d_conv_cyc: differs from a^((p^k - 1) / Phi_k(p))", N); }
	{ int tc = 0; put(EA, T, &g); VF_TRY(th, tc = Y->test(EA)); transitions++; if (!th && !tc) vf_fail(NULL, "fp%d_test_cyc rejects an element of the cyclotomic subgroup", N);
		put(EA, T, &a); VF_TRY(th, tc = Y->test(EA)); transitions++; if (!th && tc) { relt_pow(T, &t, &a, phi); if (!relt_eq(T, &t, &one)) vf_fail(NULL, "fp%d_test_cyc accepts an element outside the cyclotomic subgroup", N); } }
	/* squarings */
	relt_mul(T, &r, &g, &g);
	for (int v = 0; v < 2; v++) if (Y->sqr[v]) for (int al = 0; al < 2; al++) { put(EA, T, &g); junk(EC, N); fp_st *o = al ? EA : EC; VF_TRY(th, Y->sqr[v](o, EA)); snprintf(w, sizeof w, "fp%d_%s%s", N, Y->sqrn[v], al ? "[alias]" : ""); if (th) vf_fail(NULL, "%s raised", w); else expect(D, w, o, &r, NULL); }
	/* compressed squarings and decompression (single and simultaneous) */
	if (Y->pck[0] && relt_eq(T, &g, &one)) vf_stat_add("x.compressed_unity_not_offered_(finding_L44_under_C07)", 1);
	if (Y->pck[0] && !relt_eq(T, &g, &one)) for (int v = 0; v < 2; v++) { put(EA, T, &g); relt_set(T, &r, &g); memcpy(CU, EA, sizeof(fp_st) * (size_t)N);
		for (int k = 1; k <= 3; k++) { VF_TRY(th, Y->pck[v](CU, CU)); if (th) { vf_fail(NULL, "fp%d_sqr_pck raised", N); break; } relt_mul(T, &r, &r, &r); memcpy(CV + (size_t)(k - 1) * N, CU, sizeof(fp_st) * (size_t)N);
			junk(EC, N); VF_TRY(th, Y->back(EC, CU)); snprintf(w, sizeof w, "fp%d_sqr_pck_%s x %d + back_cyc", N, v ? "lazyr" : "basic", k); if (th) vf_fail(NULL, "%s raised %d", w, th); else expect(D, w, EC, &r, NULL); }
		if (Y->backsim && !th) { /* CV holds the compressed g^2, g^4, g^8 */ for (int al = 0; al < 2; al++) { memcpy(CU, CV, sizeof(fp_st) * (size_t)(3 * N)); static fp_st CO[4 * 54]; junk(CO, 3 * N); fp_st *o = al ? CU : CO; VF_TRY(th, Y->backsim(o, CU, 3)); snprintf(w, sizeof w, "fp%d_back_cyc_sim(3%s)", N, al ? ", in place" : "");
				if (th) { vf_fail(NULL, "%s raised %d", w, th); continue; } relt_mul(T, &r, &g, &g); for (int k = 0; k < 3; k++) { char w2[112]; snprintf(w2, sizeof w2, "%s element %d", w, k); expect(D, w2, o + (size_t)k * N, &r, NULL); relt_mul(T, &r, &r, &r); } } } }
	/* inverse */
	put(EA, T, &g); junk(EC, N); VF_TRY(th, Y->inv(EC, EA)); transitions++; if (th) vf_fail(NULL, "fp%d_inv_cyc raised", N); else { get(&q, T, EC); relt_mul(T, &q, &q, &g); if (!relt_eq(T, &q, &one)) vf_fail(NULL, "fp%d_inv_cyc: g * inv_cyc(g) != 1", N); }
	/* exponentiation: small, even, power-of-two, negative, long and dense exponents */
	{ const char *es[] = {"0", "1", "2", "3", "4", "6", "-1", "-5", "10001", "10000", "ffffffffffffffff", "10000000000000000", "-10000000000000001", "d3b1a40c29f1e8f7a5b6c3d2e1f0a9b8c7d6e5f4a3b2c1d0"}; int ne = (N >= 48 && !vf_tier) ? 10 : 14;
		for (int i = 0; i < ne; i++) { bn_t be; bn_new(be); mpz_set_str(e, es[i], 16); vf_bn_set(be, e); int neg = mpz_sgn(e) < 0; mpz_abs(e, e); relt_pow(T, &r, &g, e);
			put(EA, T, &g); junk(EC, N); VF_TRY(th, Y->exp(EC, EA, be)); snprintf(w, sizeof w, "fp%d_exp_cyc(g, %s)", N, es[i]); transitions++;
			if (th) vf_fail(NULL, "%s raised", w); else if (!neg) expect(D, w, EC, &r, NULL); else { get(&q, T, EC); relt_mul(T, &q, &q, &r); if (!relt_eq(T, &q, &one)) vf_fail(NULL, "%s: not the inverse power", w); }
			if (0 && Y->sim && i % 3 == 1) { /* not judged here: fpN_exp_cyc_sim decomposes its exponents with the Frobenius of the SELECTED PAIRING CURVE (group order, family parameter), i.e. it is defined on GT only; C12 / the family harness judge it there through gt_exp_sim */ /* g^e * (g^2)^3 */ bn_t b3; bn_new(b3); bn_set_dig(b3, 3); relt gg; relt_init(&gg); relt_mul(T, &gg, &g, &g); put(EA, T, &g); put(EB_, T, &gg); junk(EC, N); VF_TRY(th, Y->sim(EC, EA, be, EB_, b3)); transitions++;
				relt_mul(T, &q, &gg, &gg); relt_mul(T, &q, &q, &gg); snprintf(w, sizeof w, "fp%d_exp_cyc_sim(g, %s, g^2, 3)", N, es[i]);
				if (th) vf_fail(NULL, "%s raised", w); else if (!neg) { relt_mul(T, &q, &q, &r); expect(D, w, EC, &q, NULL); } else { relt x; relt_init(&x); get(&x, T, EC); relt_mul(T, &x, &x, &r); if (!relt_eq(T, &x, &q)) vf_fail(NULL, "%s: differs from g^e * g^6", w); relt_clear(&x); } relt_clear(&gg); } } }
	if (cyc_exp_dig_hook) cyc_exp_dig_hook(D, &g);
	/* sparse exponents: sum of signed powers of two, optional overall sign */
	if (Y->sps) { static const int S1[] = {0, 3, -5}, S2[] = {2, 7}, S3[] = {0}, S4[] = {1, -4, 9, 12}; const int *SS[] = {S1, S2, S3, S4}; const int SL[] = {3, 2, 1, 4};
		for (int i = 0; i < 4; i++) for (int sg = 0; sg < 2; sg++) { mpz_set_ui(e, 0); mpz_t u; mpz_init(u); for (int j = 0; j < SL[i]; j++) { mpz_set_ui(u, 1); mpz_mul_2exp(u, u, (unsigned long)abs(SS[i][j])); if (SS[i][j] < 0) mpz_sub(e, e, u); else mpz_add(e, e, u); } if (sg) mpz_neg(e, e); mpz_clear(u);
			int neg = mpz_sgn(e) < 0; mpz_abs(e, e); relt_pow(T, &r, &g, e); put(EA, T, &g); junk(EC, N); VF_TRY(th, Y->sps(EC, EA, SS[i], SL[i], sg ? RLC_NEG : RLC_POS)); transitions++; snprintf(w, sizeof w, "fp%d_exp_cyc_sps(pattern %d, sign %d)", N, i, sg);
			if (th) vf_fail(NULL, "%s raised", w); else if (!neg) expect(D, w, EC, &r, NULL); else { get(&q, T, EC); relt_mul(T, &q, &q, &r); if (!relt_eq(T, &q, &one)) vf_fail(NULL, "%s: not the inverse power", w); } } }
out:
	relt_clear(&a); relt_clear(&g); relt_clear(&t); relt_clear(&r); relt_clear(&one); relt_clear(&q); mpz_clears(phi, e, NULL);
}

/* ---------------------------------------------------------------- byte codec of every tower (C07): args sel, tid, a */
typedef int (*csz_fn)(void *); typedef void (*crd_fn)(void *, const uint8_t *, size_t); typedef void (*cwr_fn)(uint8_t *, size_t, const void *);
#define CODP(N) static int w_sz##N(void *a) { return fp##N##_size_bin(a, 0); } static void w_rd##N(void *a, const uint8_t *b, size_t l) { fp##N##_read_bin(a, b, l); } static void w_wr##N(uint8_t *b, size_t l, const void *a) { fp##N##_write_bin(b, l, a, 0); }
#define CODN(N) static int w_sz##N(void *a) { return fp##N##_size_bin(a); } static void w_rd##N(void *a, const uint8_t *b, size_t l) { fp##N##_read_bin(a, b, l); } static void w_wr##N(uint8_t *b, size_t l, const void *a) { fp##N##_write_bin(b, l, a); }
CODP(2) CODN(3) CODN(4) CODN(6) CODP(8) CODN(9) CODP(12) CODP(16) CODP(18) CODP(24) CODP(48) CODP(54)
static const struct { int N; csz_fn sz; crd_fn rd; cwr_fn wr; } COD[] = {{2, w_sz2, w_rd2, w_wr2}, {3, w_sz3, w_rd3, w_wr3}, {4, w_sz4, w_rd4, w_wr4}, {6, w_sz6, w_rd6, w_wr6}, {8, w_sz8, w_rd8, w_wr8}, {9, w_sz9, w_rd9, w_wr9},
	{12, w_sz12, w_rd12, w_wr12}, {16, w_sz16, w_rd16, w_wr16}, {18, w_sz18, w_rd18, w_wr18}, {24, w_sz24, w_rd24, w_wr24}, {48, w_sz48, w_rd48, w_wr48}, {54, w_sz54, w_rd54, w_wr54}};
static void do_cod(vf_case *c) {
	tdesc *D = &TW[mpz_get_si(c->v[1])]; const rtower *T = &D->rt; int th, N = D->N, ci = -1; for (unsigned i = 0; i < sizeof COD / sizeof *COD; i++) if (COD[i].N == N) ci = (int)i; if (ci < 0) return;
	relt a, g; relt_init(&a); relt_init(&g); unpack(&a, T, c->v[2]); static uint8_t buf[54 * 100 + 64], b2[54 * 100 + 64]; size_t FB = RLC_FP_BYTES, want = (size_t)N * FB; char w[96];
	put(EA, T, &a); int sz = -1; VF_TRY(th, sz = COD[ci].sz(EA)); transitions++; if (th || (size_t)sz != want) { vf_fail(NULL, "fp%d_size_bin = %d, expected %zu", N, sz, want); goto out; }
	memset(buf, 0xC7, sizeof buf); VF_TRY(th, COD[ci].wr(buf + 16, want, EA)); transitions++; if (th) { vf_fail(NULL, "fp%d_write_bin raised with the announced length", N); goto out; }
	for (int i = 0; i < 16; i++) if (buf[i] != 0xC7 || buf[16 + want + i] != 0xC7) { vf_fail(NULL, "fp%d_write_bin wrote outside its buffer", N); goto out; }
	/* canonical: every chunk is a residue below p, and the chunks are exactly the coefficients (as a multiset) */
	{ mpz_t v; mpz_init(v); int used[54] = {0}; for (int k = 0; k < N; k++) { mpz_import(v, FB, 1, 1, 1, 0, buf + 16 + (size_t)k * FB); if (mpz_cmp(v, RX_P) >= 0) { vf_fail(NULL, "fp%d_write_bin: chunk %d is not below p", N, k); break; } int hit = 0; for (int j = 0; j < N && !hit; j++) if (!used[j] && !mpz_cmp(v, a.c[j])) { used[j] = 1; hit = 1; } if (!hit) { vf_fail(NULL, "fp%d_write_bin: chunk %d is not a coefficient of the element", N, k); break; } } mpz_clear(v); }
	junk(EC, N); VF_TRY(th, COD[ci].rd(EC, buf + 16, want)); transitions++; snprintf(w, sizeof w, "fp%d_read_bin(fp%d_write_bin(a))", N, N); if (th) vf_fail(NULL, "%s raised", w); else expect(D, w, EC, &a, NULL);
	VF_TRY(th, COD[ci].wr(b2, want - 1, EA)); transitions++; if (!th) vf_fail(NULL, "fp%d_write_bin accepted a buffer one byte short", N);
	junk(EC, N); VF_TRY(th, COD[ci].rd(EC, buf + 16, want - 1)); transitions++; if (!th) vf_fail(NULL, "fp%d_read_bin accepted an encoding truncated by one byte", N);
	memcpy(b2, buf + 16, want); b2[want] = 0; junk(EC, N); VF_TRY(th, COD[ci].rd(EC, b2, want + 1)); transitions++; if (!th) vf_fail(NULL, "fp%d_read_bin accepted an encoding with one byte appended", N);
	/* a chunk that is not below p is never accepted: chunk + p (same residue) and p itself, at the first, a middle and the last position */
	{ mpz_t v; mpz_init(v); int pos[3] = {0, N / 2, N - 1}; for (int pi = 0; pi < 3; pi++) for (int mu = 0; mu < 2; mu++) { memcpy(b2, buf + 16, want); uint8_t *q = b2 + (size_t)pos[pi] * FB; mpz_import(v, FB, 1, 1, 1, 0, q); if (mu) mpz_set(v, RX_P); else mpz_add(v, v, RX_P);
			if (mpz_sizeinbase(v, 2) > 8 * FB) continue; memset(q, 0, FB); size_t n = (mpz_sizeinbase(v, 2) + 7) / 8; mpz_export(q + FB - n, NULL, 1, 1, 1, 0, v);
			junk(EC, N); VF_TRY(th, COD[ci].rd(EC, b2, want)); transitions++; if (!th) vf_fail(NULL, "fp%d_read_bin accepted an encoding whose chunk %d is %s", N, pos[pi], mu ? "p itself" : "a coefficient plus p"); } mpz_clear(v); }
out:
	relt_clear(&a); relt_clear(&g);
}

/* ---------------------------------------------------------------- small-constant forms: args sel, tid, a, d (a digit) */
typedef void (*dg_fn)(void *, const void *, dig_t); typedef int (*cd_fn)(const void *, dig_t); typedef void (*sd_fn)(void *, dig_t);
#define WDG(name) static void w_##name(void *c, const void *a, dig_t d) { name(c, a, d); }
#define WCD(name) static int w_##name(const void *a, dig_t d) { return name(a, d); }
#define WSD(name) static void w_##name(void *a, dig_t d) { name(a, d); }
WDG(fp2_add_dig) WDG(fp2_sub_dig) WDG(fp2_mul_dig) WDG(fp2_exp_dig) WDG(fp3_add_dig) WDG(fp3_sub_dig) WDG(fp3_mul_dig) WDG(fp4_add_dig) WDG(fp4_sub_dig) WDG(fp4_mul_dig) WDG(fp8_mul_dig) WDG(fp8_exp_dig)
WDG(fp12_exp_dig) WDG(fp16_exp_dig) WDG(fp18_exp_dig) WDG(fp24_exp_dig) WDG(fp48_exp_dig) WDG(fp54_exp_dig)
#define CS(N) WCD(fp##N##_cmp_dig) WSD(fp##N##_set_dig)
CS(2) CS(3) CS(4) CS(6) CS(8) CS(9) CS(12) CS(16) CS(18) CS(24) CS(48) CS(54)
static const struct { int N; dg_fn add, sub, mul, exp; cd_fn cmp; sd_fn set; } DG[] = {
	{2, w_fp2_add_dig, w_fp2_sub_dig, w_fp2_mul_dig, w_fp2_exp_dig, w_fp2_cmp_dig, w_fp2_set_dig}, {3, w_fp3_add_dig, w_fp3_sub_dig, w_fp3_mul_dig, NULL, w_fp3_cmp_dig, w_fp3_set_dig},
	{4, w_fp4_add_dig, w_fp4_sub_dig, w_fp4_mul_dig, NULL, w_fp4_cmp_dig, w_fp4_set_dig}, {6, NULL, NULL, NULL, NULL, w_fp6_cmp_dig, w_fp6_set_dig}, {8, NULL, NULL, w_fp8_mul_dig, w_fp8_exp_dig, w_fp8_cmp_dig, w_fp8_set_dig},
	{9, NULL, NULL, NULL, NULL, w_fp9_cmp_dig, w_fp9_set_dig}, {12, NULL, NULL, NULL, w_fp12_exp_dig, w_fp12_cmp_dig, w_fp12_set_dig}, {16, NULL, NULL, NULL, w_fp16_exp_dig, w_fp16_cmp_dig, w_fp16_set_dig},
	{18, NULL, NULL, NULL, w_fp18_exp_dig, w_fp18_cmp_dig, w_fp18_set_dig}, {24, NULL, NULL, NULL, w_fp24_exp_dig, w_fp24_cmp_dig, w_fp24_set_dig}, {48, NULL, NULL, NULL, w_fp48_exp_dig, w_fp48_cmp_dig, w_fp48_set_dig}, {54, NULL, NULL, NULL, w_fp54_exp_dig, w_fp54_cmp_dig, w_fp54_set_dig}};
static void cyc_exp_dig(const tdesc *D, const relt *g) {
	const rtower *T = &D->rt; int th, N = D->N, di = -1; for (unsigned i = 0; i < sizeof DG / sizeof *DG; i++) if (DG[i].N == N) di = (int)i; if (di < 0 || !DG[di].exp) return;
	static const unsigned long DS[] = {1, 2, 3, 6, 7, 11, 13, 31, 43, 255}; relt r; relt_init(&r); mpz_t z; mpz_init(z); char w[64];
	for (int q = 0; q < 10; q++) { mpz_set_ui(z, DS[q]); relt_pow(T, &r, g, z); put(EA, T, g); junk(EC, N); VF_TRY(th, DG[di].exp(EC, EA, (dig_t)DS[q])); snprintf(w, sizeof w, "fp%d_exp_dig(cyclotomic element, %lu)", N, DS[q]); if (th) vf_fail(NULL, "%s raised", w); else expect(D, w, EC, &r, NULL); }
	relt_clear(&r); mpz_clear(z);
}
static void do_dig(vf_case *c) {
	cyc_exp_dig_hook = cyc_exp_dig;
	tdesc *D = &TW[mpz_get_si(c->v[1])]; const rtower *T = &D->rt; int th, N = D->N, di = -1; for (unsigned i = 0; i < sizeof DG / sizeof *DG; i++) if (DG[i].N == N) di = (int)i; if (di < 0) return;
	relt a, r, dd; relt_init(&a); relt_init(&r); relt_init(&dd); unpack(&a, T, c->v[2]); dig_t d = (dig_t)mpz_get_ui(c->v[3]); mpz_t z; mpz_init(z); mpz_set_ui(z, (unsigned long)d);
	relt_zero(T, &dd); mpz_mod(dd.c[0], z, RX_P); char w[64];
	for (int al = 0; al < 2; al++) {
		if (DG[di].add) { put(EA, T, &a); junk(EC, N); fp_st *o = al ? EA : EC; VF_TRY(th, DG[di].add(o, EA, d)); relt_add(T, &r, &a, &dd); snprintf(w, sizeof w, "fp%d_add_dig%s", N, al ? "[alias]" : ""); if (th) vf_fail(NULL, "%s raised", w); else expect(D, w, o, &r, NULL); }
		if (DG[di].sub) { put(EA, T, &a); junk(EC, N); fp_st *o = al ? EA : EC; VF_TRY(th, DG[di].sub(o, EA, d)); relt_sub(T, &r, &a, &dd); snprintf(w, sizeof w, "fp%d_sub_dig%s", N, al ? "[alias]" : ""); if (th) vf_fail(NULL, "%s raised", w); else expect(D, w, o, &r, NULL); }
		if (DG[di].mul) { put(EA, T, &a); junk(EC, N); fp_st *o = al ? EA : EC; VF_TRY(th, DG[di].mul(o, EA, d)); relt_mul(T, &r, &a, &dd); snprintf(w, sizeof w, "fp%d_mul_dig%s", N, al ? "[alias]" : ""); if (th) vf_fail(NULL, "%s raised", w); else expect(D, w, o, &r, NULL); }
		/* fpN_exp_dig (N >= 8) asks fpN_test_cyc, i.e. the Frobenius: at the tiny primes of the 8-bit world that is outside the towers' families (excluded there like the other Frobenius-based operations, section 0.3; fp54_exp_dig does not even terminate at p = 331) */
		if (DG[di].exp && (!tiny || N == 2) && (N <= 12 || d < 70000)) { put(EA, T, &a); junk(EC, N); fp_st *o = al ? EA : EC; VF_TRY(th, DG[di].exp(o, EA, d)); relt_pow(T, &r, &a, z); snprintf(w, sizeof w, "fp%d_exp_dig%s", N, al ? "[alias]" : ""); if (th) vf_fail(frb_kf(D), "%s raised", w); else expect(D, w, o, &r, frb_kf(D)); /* exp_dig asks fpN_test_cyc, which is built from the Frobenius (L31 at foreign primes) */ } }
	/* set_dig / cmp_dig: the digit as an element of the tower; equality with a digit means coefficient 0 equals it and all others vanish */
	{ junk(EC, N); VF_TRY(th, DG[di].set(EC, d)); snprintf(w, sizeof w, "fp%d_set_dig", N); if (th) vf_fail(NULL, "%s raised", w); else expect(D, w, EC, &dd, NULL);
		int e = 9; put(EA, T, &a); VF_TRY(th, e = DG[di].cmp(EA, d)); transitions++; if (!th && ((e == RLC_EQ) != relt_eq(T, &a, &dd))) vf_fail(NULL, "fp%d_cmp_dig: says %s for an element that %s the digit", N, e == RLC_EQ ? "EQ" : "NE", relt_eq(T, &a, &dd) ? "equals" : "differs from");
		put(EA, T, &dd); VF_TRY(th, e = DG[di].cmp(EA, d)); transitions++; if (!th && e != RLC_EQ) vf_fail(NULL, "fp%d_cmp_dig: the digit itself does not compare equal", N);
		/* an element whose coefficients other than the first cancel pairwise but are non-zero is not the digit */
		if (N >= 2) { relt x; relt_init(&x); relt_set(T, &x, &dd); mpz_set_ui(x.c[N - 1], 1); if (N > 2) mpz_sub_ui(x.c[1], RX_P, 1); put(EA, T, &x); VF_TRY(th, e = DG[di].cmp(EA, d)); transitions++; if (!th && e == RLC_EQ) vf_fail(NULL, "fp%d_cmp_dig: an element with non-zero higher coefficients compares equal to a digit", N); relt_clear(&x); } }
	relt_clear(&a); relt_clear(&r); relt_clear(&dd); mpz_clear(z);
}

static void run_case(vf_case *c) {
	cyc_exp_dig_hook = cyc_exp_dig;
	if (!select_prime(c->v[0])) { vf_fail(NULL, "prime refused"); return; }
	long tid = mpz_get_si(c->v[1]); if (tid < 1 || tid >= NTW) { vf_fail(NULL, "bad tower"); return; }
	if (!TW[tid].usable) return;
	vf_nontrivial();
	if (!strcmp(c->op, "bin")) do_bin(c); else if (!strcmp(c->op, "un")) do_un(c); else if (!strcmp(c->op, "frb")) do_frb(c); else if (!strcmp(c->op, "exp")) do_exp(c);
	else if (!strcmp(c->op, "srt")) do_srt(c); else if (!strcmp(c->op, "cyc")) do_cyc(c); else if (!strcmp(c->op, "isim")) do_isim(c); else if (!strcmp(c->op, "cycx")) do_cycx(c); else if (!strcmp(c->op, "cod")) do_cod(c); else if (!strcmp(c->op, "dig")) do_dig(c); else vf_fail(NULL, "unknown op");
}

/* ---------------------------------------------------------------- enumeration */
static vf_case K;
static void run_el(const char *op, const mpz_t sel, int tid, const mpz_t a) { K.op = op; K.n = 3; mpz_set(K.v[0], sel); mpz_set_si(K.v[1], tid); mpz_set(K.v[2], a); vf_run(&K); }
/* element alphabet for tower tid: coefficient alphabet A_c; all vectors for N <= 4, else <= 2 non-default positions over a dense and a zero default */
static void tower_alphabet(vf_dom *d, int tid) {
	tdesc *D = &TW[tid]; const rtower *T = &D->rt;
	mpz_t ac[6]; for (int i = 0; i < 6; i++) mpz_init(ac[i]);
	mpz_set_ui(ac[0], 0); mpz_set_ui(ac[1], 1); mpz_sub_ui(ac[2], RX_P, 1); mpz_set_ui(ac[3], 2); mpz_sub_ui(ac[4], RX_P, 1); mpz_fdiv_q_2exp(ac[4], ac[4], 1);
	mpz_set_str(ac[5], "b6a4c3e1f09d8775a3c2e1f0d9b8a76655443322110ffeeddccbbaa998877665", 16); mpz_mod(ac[5], ac[5], RX_P);
	relt e; relt_init(&e); mpz_t v; mpz_init(v);
	if (D->N <= 4) { int idx[4] = {0, 0, 0, 0}; int NA = (D->N == 4 && !vf_tier) ? 5 : 6;
		for (;;) { for (int i = 0; i < D->N; i++) mpz_set(e.c[i], ac[idx[i]]); pack(v, T, &e); vf_dom_add(d, v); int k = 0; while (k < D->N && ++idx[k] == NA) idx[k++] = 0; if (k == D->N) break; } }
	else for (int def = 0; def < 2; def++) {
		for (int i = 0; i < D->N; i++) mpz_set(e.c[i], def ? ac[5] : ac[0]); pack(v, T, &e); vf_dom_add(d, v);
		int stepj = (D->N > 18 && !vf_tier) ? 5 : 1;
		for (int i = 0; i < D->N; i++) for (int x = 0; x < 5; x++) { for (int q = 0; q < D->N; q++) mpz_set(e.c[q], def ? ac[5] : ac[0]); mpz_set(e.c[i], ac[x]); pack(v, T, &e); vf_dom_add(d, v);
			if (x == 1 || x == 2) for (int j = i + 1; j < D->N; j += stepj) { mpz_set(e.c[j], ac[2]); pack(v, T, &e); vf_dom_add(d, v); mpz_set(e.c[j], def ? ac[5] : ac[0]); } }
	}
	/* all coefficients p-1 (maximal lazy-reduction accumulators), all (p-1)/2, one, the adjoined root */
	for (int i = 0; i < D->N; i++) mpz_set(e.c[i], ac[2]); pack(v, T, &e); vf_dom_add(d, v);
	for (int i = 0; i < D->N; i++) mpz_set(e.c[i], ac[4]); pack(v, T, &e); vf_dom_add(d, v);
	relt_clear(&e); mpz_clear(v); for (int i = 0; i < 6; i++) mpz_clear(ac[i]);
	vf_dom_uniq(d);
}

static void enumerate(void) {
	vf_case_init(&K);
	mpz_t sel, a, b; mpz_inits(sel, a, b, NULL);
#if WSIZE != 64
	/* tiny: complete quadratic (and cubic) extensions */
	static const long QP[] = {257, 263, 331, 1009, 65521};
	for (unsigned pi = 0; pi < 5; pi++) {
		char bn[48]; snprintf(bn, sizeof bn, "tiny-complete-p-%ld", QP[pi]);
		if (!vf_bound_on(bn)) continue;
		long p = QP[pi]; mpz_set_si(sel, p); if (!select_prime(sel)) { printf("@INFO prime %ld refused\n", p); continue; }
		for (int tid = 1; tid <= 2; tid++) { if (!TW[tid].usable) continue; int N = TW[tid].N;
			if (p > 1009 || (N == 3 && p > 331 && !vf_tier)) continue;
			long total = 1; for (int i = 0; i < N; i++) total *= p;
			long stride = (N == 3 && !vf_tier) ? 7 : 1; /* quick: every 7th element of F_p^3 (coprime to p: all residues in every position), thorough: all */
			for (long x = 0; x < total && !vf_expired(); x += stride) if (vf_mine()) { vf_stat_add("states", 1);
				long t = x; mpz_set_ui(a, 0); for (int i = 0; i < N; i++) { mpz_set_si(b, t % p); mpz_mul_2exp(b, b, (unsigned long)(BBITS * i)); mpz_add(a, a, b); t /= p; }
				run_el("un", sel, tid, a); if (x % 5 == 0 || N == 2) run_el("srt", sel, tid, a);
				if (x % 97 == 0) run_el("frb", sel, tid, a);
				/* pairs: (all) x (elements with a zero coefficient, the base field, +-1, +-X) */
				if (N == 2 && p <= 263) { long ys[64]; int ny = 0; for (long y0 = 0; y0 < p; y0 += (y0 < 3 || y0 > p - 3 ? 1 : 43)) { ys[ny++] = y0; ys[ny++] = y0 * p; } ys[ny++] = 1 + p; ys[ny++] = (p - 1) + (p - 1) * p;
					for (int j = 0; j < ny; j++) { long y = ys[j]; mpz_set_si(b, y % p); mpz_t hi; mpz_init_set_si(hi, y / p); mpz_mul_2exp(hi, hi, (unsigned long)BBITS); mpz_add(b, b, hi); mpz_clear(hi); K.op = "bin"; K.n = 4; mpz_set(K.v[0], sel); mpz_set_si(K.v[1], tid); mpz_set(K.v[2], a); mpz_set(K.v[3], b); vf_run(&K); } }
			}
		}
		/* higher towers in the tiny world: alphabet products (16-bit primes make every carry / lazy-reduction boundary frequent) */
		for (int tid = 3; tid < NTW; tid++) { if (!TW[tid].usable) continue; if (TW[tid].N > 12 && !vf_tier) continue;
			vf_dom d; vf_dom_init(&d); tower_alphabet(&d, tid);
			int st = d.n > 400 ? d.n / 200 : 1;
			/* tiny_exclusion: Frobenius-based routines (frb, srt, is_sqr, cyclotomic family) of the towers above degree 3 use constants that
			 * exist only when p = 1 mod the tower's index (true inside every pairing family, not for arbitrary 16-bit primes): the tiny world
			 * judges the ring operations of those towers only; the Frobenius-based ones are judged at the shipped pairing primes. */
			for (int i = 0; i < d.n && !vf_expired(); i += st) if (vf_mine()) { run_el("un", sel, tid, d.v[i]); run_el("cod", sel, tid, d.v[i]); { static const unsigned long DS[] = {0, 1, 2, 3, 255, 65537}; for (int q = 0; q < 6; q++) { if (WSIZE == 8 && DS[q] > 255) continue; if ((i + q) % 3 && q > 1) continue; K.op = "dig"; K.n = 4; mpz_set(K.v[0], sel); mpz_set_si(K.v[1], tid); mpz_set(K.v[2], d.v[i]); mpz_set_ui(K.v[3], DS[q]); vf_run(&K); } }
				for (int j = i % 3; j < d.n; j += (d.n > 60 ? d.n / 20 : 1)) { K.op = "bin"; K.n = 4; mpz_set(K.v[0], sel); mpz_set_si(K.v[1], tid); mpz_set(K.v[2], d.v[i]); mpz_set(K.v[3], d.v[j]); vf_run(&K); if ((i + j) % 3 == 0) { K.op = "isim"; vf_run(&K); } } }
			vf_dom_clear(&d); }
		vf_bound_done(bn);
	}
#else
#if FP_PRIME == 256
	static const int IDS[] = {BN_256, SM9_256, NIST_256, SECG_256, BSI_256, SM2_256};
#elif FP_PRIME == 381
	static const int IDS[] = {B12_381};
#elif FP_PRIME == 446
	static const int IDS[] = {BN_446, B12_446};
#elif FP_PRIME == 315
	static const int IDS[] = {B24_315};
#elif FP_PRIME == 330
	static const int IDS[] = {K16_330};
#elif FP_PRIME == 575
	static const int IDS[] = {B48_575};
#elif FP_PRIME == 638
	static const int IDS[] = {K18_638};
#else
	static const int IDS[] = {0};
#endif
	for (unsigned pi = 0; pi < sizeof IDS / sizeof *IDS; pi++) {
		char bn[48]; snprintf(bn, sizeof bn, "w64-towers-param-%d", IDS[pi]);
		if (!vf_bound_on(bn)) continue;
		mpz_set_si(sel, IDS[pi]); if (!select_prime(sel)) { vf_fail(NULL, "fp_param_set refused"); continue; }
		for (int tid = 1; tid < NTW; tid++) { if (!TW[tid].usable) continue;
			if (FP_PRIME == 256 && pi >= 2 && TW[tid].N > 4) continue; /* non-pairing primes: quadratic/cubic/quartic towers only */
			vf_dom d; vf_dom_init(&d); tower_alphabet(&d, tid);
			int budget = vf_tier ? 3000 : (TW[tid].N <= 4 ? 400 : TW[tid].N <= 12 ? 160 : 24);
			int st = d.n > budget ? d.n / budget : 1, pairs = TW[tid].N <= 4 ? 40 : (TW[tid].N <= 12 ? 12 : 4);
			for (int i = 0; i < d.n && !vf_expired(); i += st) if (vf_mine()) { run_el("un", sel, tid, d.v[i]); run_el("cod", sel, tid, d.v[i]); { static const unsigned long DS[] = {0, 1, 2, 3, 255, 65537}; for (int q = 0; q < 6; q++) { if (WSIZE == 8 && DS[q] > 255) continue; if ((i + q) % 3 && q > 1) continue; K.op = "dig"; K.n = 4; mpz_set(K.v[0], sel); mpz_set_si(K.v[1], tid); mpz_set(K.v[2], d.v[i]); mpz_set_ui(K.v[3], DS[q]); vf_run(&K); } }
				if (i % (8 * st) == 0) run_el("frb", sel, tid, d.v[i]);
				if (TW[tid].srt && i % (4 * st) == 0) run_el("srt", sel, tid, d.v[i]);
				if (TW[tid].N == 12 && i % (2 * st) == 0) run_el("cyc", sel, tid, d.v[i]);
				{ int nn = TW[tid].N; if ((nn == 8 || nn == 12 || nn == 16 || nn == 18 || nn == 24 || nn == 48 || nn == 54) && i % ((nn >= 48 ? 8 : nn >= 18 ? 4 : 2) * st) == 0) run_el("cycx", sel, tid, d.v[i]); }
				for (int j = i % 5, cnt = 0; j < d.n && cnt < pairs; j += (d.n / pairs + 1), cnt++) { K.op = "bin"; K.n = 4; mpz_set(K.v[0], sel); mpz_set_si(K.v[1], tid); mpz_set(K.v[2], d.v[i]); mpz_set(K.v[3], d.v[j]); vf_run(&K); if (cnt < 6) { K.op = "isim"; vf_run(&K); } }
				if (i % (8 * st) == 0) { const char *es[] = {"0", "1", "2", "-1", "-2", "10001", "ffffffffffffffffffffffffffffffffffffffffffffffffffffffffffffffff", "1000000000000000000000000000000000000000000000000000000000000000000000000001"};
					for (unsigned q = 0; q < 8; q++) { K.op = "exp"; K.n = 4; mpz_set(K.v[0], sel); mpz_set_si(K.v[1], tid); mpz_set(K.v[2], d.v[i]); mpz_set_str(K.v[3], es[q], 16); vf_run(&K); }
					K.op = "exp"; K.n = 4; mpz_set(K.v[3], RX_P); vf_run(&K); }
			}
			vf_dom_clear(&d); }
		vf_bound_done(bn);
	}
#endif
	vf_stat_add("transitions", transitions);
}

VF_MAIN()
