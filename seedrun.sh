#!/bin/bash
# seedrun.sh <PROP> <seed-name>: apply /verif/seeded/<seed-name>/patch.diff to a scratch worktree of /repo's HEAD (/tmp/seedrepo),
# run the property's quick check against it (VERIF_REPO), record the outcome in meta.json. /repo itself is not touched, so this can run
# while other work goes on. The check's evidence file is restored afterwards (evidence must come from runs against /repo).
set -u
PROP=$1; NAME=$2; S=/tmp/seedrepo
git -C /repo worktree list | grep -q "$S " || git -C /repo worktree add --detach $S HEAD >/dev/null 2>&1
git -C $S checkout -q --detach $(git -C /repo rev-parse HEAD) && git -C $S checkout -q -- . || exit 3
git -C $S apply /verif/seeded/$NAME/patch.diff || { echo "[seedrun $NAME] patch does not apply to HEAD"; exit 4; }
cp /verif/evidence/$PROP.json /tmp/evidence_$PROP.keep 2>/dev/null
cd /verif && VERIF_REPO=$S python3 check.py $PROP --tier ${SEED_TIER:-quick} > /tmp/seedrun_$NAME.log 2>&1; RC=$?
cp /tmp/evidence_$PROP.keep /verif/evidence/$PROP.json 2>/dev/null
git -C $S checkout -q -- .
V=$(grep -c "^VIOLATION" /tmp/seedrun_$NAME.log)
echo "[seedrun $NAME] check $PROP rc=$RC violations=$V"
grep "violation:\|crash:" /tmp/seedrun_$NAME.log | cut -c1-220 | head -4
python3 - <<PY
import json
p="/verif/seeded/$NAME/meta.json"; d=json.load(open(p))
d.update({"check_exit":$RC,"violations_reported":$V,"detected":$RC==1 and $V>0,"check_run":"VERIF_REPO=<scratch worktree of /repo HEAD + patch> python3 check.py $PROP --tier ${SEED_TIER:-quick}"})
json.dump(d,open(p,"w"),indent=1)
PY
