#!/usr/bin/env python3
"""covscan.py [W64|W8] [deadline_s]: developer aid (not a registered check). Rebuilds the tree in a gcov world, runs every quick-tier
harness registered for the base world against it (16 shards, short deadline) and lists the library functions that no harness
executed. Output: covscan_<world>.txt (function list per source file)."""
import os, sys, subprocess, json, re, glob, collections
sys.path.insert(0, os.path.dirname(os.path.abspath(__file__)))
import worlds, check
from jobs import PROPS
base = sys.argv[1] if len(sys.argv) > 1 else "W64"
dl = sys.argv[2] if len(sys.argv) > 2 else "90"
cov = base + "-cov"
wdir = worlds.build(cov)
for f in glob.glob(os.path.join(wdir, "**", "*.gcda"), recursive=True):
    os.unlink(f)
seen = set()
for pid in sorted(PROPS):
    for j in PROPS[pid]["jobs"]:
        if j["world"] != base or "quick" not in j.get("tiers", ("quick", "thorough")) or j.get("retu"):
            continue
        key = (j["src"], tuple(j.get("args", [])), json.dumps(j.get("env", {})))
        if key in seen:
            continue
        seen.add(key)
        jj = dict(j, world=cov, name="cov-" + j["name"])
        try:
            exe = check.compile_harness(wdir, cov, jj)
        except RuntimeError as e:
            print("skip", j["name"], str(e)[-300:]); continue
        ps = [subprocess.Popen([exe] + list(j.get("args", [])) + ["--shard", "%d/16" % i, "--deadline", dl], stdout=subprocess.DEVNULL, stderr=subprocess.DEVNULL,
                               env=dict(check.ENV, **j.get("env", {}))) for i in range(16)]
        for p in ps:
            try: p.wait(timeout=float(dl) + 60)
            except subprocess.TimeoutExpired: p.kill()
        print("ran", pid, j["name"], flush=True)
res = collections.defaultdict(list); tot = 0; hit = 0
for gcda in glob.glob(os.path.join(wdir, "**", "*.gcda"), recursive=True):
    r = subprocess.run(["gcov", "-f", "-o", os.path.dirname(gcda), gcda], capture_output=True, text=True, cwd="/tmp")
    for m in re.finditer(r"Function '([^']+)'\nLines executed:([0-9.]+)% of (\d+)", r.stdout):
        tot += 1
        if float(m.group(2)) == 0.0: res[os.path.basename(gcda).replace(".gcda", "")].append(m.group(1))
        else: hit += 1
# objects never loaded at all have no .gcda: list their functions from the .gcno
for gcno in glob.glob(os.path.join(wdir, "**", "*.gcno"), recursive=True):
    if not os.path.exists(gcno[:-5] + ".gcda"):
        res[os.path.basename(gcno).replace(".gcno", "")].append("<<no function of this file was executed>>")
with open(os.path.join(os.path.dirname(os.path.abspath(__file__)), "covscan_%s.txt" % base), "w") as f:
    f.write("functions executed: %d of %d\n" % (hit, tot))
    for k in sorted(res): f.write("%s: %s\n" % (k, " ".join(sorted(res[k]))))
print("functions executed: %d of %d" % (hit, tot))
os.system("rm -f /tmp/*.gcov")
